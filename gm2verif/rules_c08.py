"""C08 -- a constructed THDM reproduces the inputs it was constructed from (algebraic clauses)."""
import re
from fractions import Fraction

from .facts import walk, kids, strip_all, call_args, call_object, is_call
from .structure import Struct, always_exits
from .render import Renderer
from .terms import Evaluator, Frame, show, num, subterms, MatVal
from .poly import to_rat, Rat, Poly, NotPolynomial, PI
from .potential import C, A, hessian, gradient, SQRT2, INV_SQRT2
from .rules_c20 import _reduce_roots
from .rules_c04 import fld, el, K, as_entries, equal_rat, _check_tachyons
from .extract import AnalysisBroken

PID = "C08"
LEVEL = "other"
CLS = "gm2calc::THDM_mass_eigenstates"
TH = ("this",)


def spec():
    """general CP-conserving 2HDM potential (arXiv:2110.13238 Eq.(1)), Phi_i = (phi_i^+, (v_i + rho_i + i eta_i)/sqrt2)"""
    g1, g2, v1, v2 = (fld(x) for x in ("g1", "g2", "v1", "v2"))
    m112, m222, m122 = (fld(x) for x in ("m112", "m222", "m122"))
    l = [None] + [fld("lambda%d" % i) for i in range(1, 8)]
    names = ("rho1", "rho2", "eta1", "eta2", "x1", "x2", "y1", "y2")
    rho1, rho2, eta1, eta2, x1, x2, y1, y2 = (A(("fluct", n)) for n in names)
    P1p = C(x1 * INV_SQRT2, y1 * INV_SQRT2)
    P2p = C(x2 * INV_SQRT2, y2 * INV_SQRT2)
    P10 = C((v1 + rho1) * INV_SQRT2, eta1 * INV_SQRT2)
    P20 = C((v2 + rho2) * INV_SQRT2, eta2 * INV_SQRT2)
    n1 = P1p.abs2() + P10.abs2()
    n2 = P2p.abs2() + P20.abs2()
    p12 = P1p.conj() * P2p + P10.conj() * P20          # Phi1^dagger Phi2
    V = m112 * n1 + m222 * n2 - (m122 * p12.re).scale(2) \
        + (l[1] * n1 * n1).scale(Fraction(1, 2)) + (l[2] * n2 * n2).scale(Fraction(1, 2)) \
        + l[3] * n1 * n2 + l[4] * p12.abs2() \
        + l[5] * (p12 * p12).re + (l[6] * n1 * p12.re).scale(2) + (l[7] * n2 * p12.re).scale(2)
    fields = [("fluct", n) for n in names]
    H = hessian(V, fields)
    gY2 = (g1 * g1).scale(Fraction(3, 5))
    gZ2 = g2 * g2 + gY2
    out = {}
    out["hh"] = [[H[0][0], H[0][1]], [H[1][0], H[1][1]]]
    out["Ah0"] = [[H[2][2], H[2][3]], [H[3][2], H[3][3]]]
    out["Hm0"] = [[H[4][4], H[4][5]], [H[5][4], H[5][5]]]
    vv = [v1, v2]
    out["Ah"] = [[out["Ah0"][i][j] + (gZ2 * vv[i] * vv[j]).scale(Fraction(1, 4)) for j in range(2)] for i in range(2)]
    out["Hm"] = [[out["Hm0"][i][j] + (g2 * g2 * vv[i] * vv[j]).scale(Fraction(1, 4)) for j in range(2)] for i in range(2)]
    out["VWm"] = (g2 * g2 * (v1 * v1 + v2 * v2)).scale(Fraction(1, 4))
    out["VZ"] = (gZ2 * (v1 * v1 + v2 * v2)).scale(Fraction(1, 4))
    out["_tadpoles"] = gradient(V, fields)[:2]
    return out


def subs_rat(p, mapping):
    """substitute atoms of polynomial p by rational functions"""
    tot = Rat(Poly())
    for m, c in p.t.items():
        term = Rat(Poly.const(c))
        for a, e in m:
            base = mapping.get(a)
            if base is None:
                base = Rat(Poly.atom(a))
            for _ in range(e):
                term = term * base
        tot = tot + term
    return tot


def _reduce_trig(p, s_atom, c_atom):
    for _ in range(50):
        hit = False
        out = Poly()
        for m, c in p.t.items():
            d = dict(m)
            if d.get(c_atom, 0) >= 2:
                d[c_atom] -= 2
                mono = tuple(sorted(((a, x) for a, x in d.items() if x), key=lambda y: repr(y[0])))
                base = Poly({mono: c})
                out = out + base - base * (Poly.atom(s_atom) ** 2)
                hit = True
            else:
                out = out + Poly({m: c})
        p = out
        if not hit:
            break
    return p


def _norm_getters(t):
    """model getters are compared by short name (get_beta(this) with or without class qualification)"""
    if not isinstance(t, tuple) or not t:
        return t
    if t[0] == "call":
        return ("call", str(t[1]).split("::")[-1], tuple(_norm_getters(a) for a in t[2]))
    if t[0] in ("num", "sym"):
        return t
    return (t[0],) + tuple(_norm_getters(x) if isinstance(x, tuple) else x for x in t[1:])


def expand_trig(t):
    """sin/cos of +-sums of atan(x), asin(y) -> algebraic form with principal square roots:
       sin(atan x) = x/sqrt(1+x^2), cos(atan x) = 1/sqrt(1+x^2), sin(asin y) = y, cos(asin y) = sqrt(1-y^2)"""
    if not isinstance(t, tuple) or not t:
        return t
    if t[0] == "call" and t[1] in ("sin", "cos") and len(t[2]) == 1:
        sc = _sincos(t[2][0])
        if sc is not None:
            return sc[0] if t[1] == "sin" else sc[1]
    if t[0] in ("num", "sym"):
        return t
    if t[0] == "call":
        return ("call", t[1], tuple(expand_trig(a) for a in t[2]))
    return (t[0],) + tuple(expand_trig(x) if isinstance(x, tuple) else x for x in t[1:])


def _sincos(a):
    """(sin a, cos a) as terms for a built from atan(.), asin(.) by + - neg; None otherwise"""
    one = num(1)
    if a[0] == "call" and a[1] == "atan" and len(a[2]) == 1:
        x = expand_trig(a[2][0])
        r = ("call", "sqrt", (("+", one, ("*", x, x)),))
        return ("/", x, r), ("/", one, r)
    if a[0] == "call" and a[1] == "asin" and len(a[2]) == 1:
        y = expand_trig(a[2][0])
        return y, ("call", "sqrt", (("-", one, ("*", y, y)),))
    if a[0] == "neg":
        sc = _sincos(a[1])
        return None if sc is None else (("neg", sc[0]), sc[1])
    if a[0] in ("+", "-"):
        p, q = _sincos(a[1]), _sincos(a[2])
        if p is None or q is None:
            return None
        if a[0] == "-":
            q = (("neg", q[0]), q[1])
        return (("+", ("*", p[0], q[1]), ("*", p[1], q[0])), ("-", ("*", p[1], q[1]), ("*", p[0], q[0])))
    return None


def _angle_of_heavy_eigenvector(a0):
    """alpha_h before normalisation must equal alpha modulo pi for EVERY matrix the diagonalisation contract allows:
    ZH = diag(s0, s1) [[-sin a, cos a], [cos a, sin a]] with arbitrary signs s0, s1 (rows are eigenvectors up to sign).
    atan2(y, x) / atan(y/x) qualify iff y/x == tan(alpha) identically after that substitution; a single-component
    inverse function (asin, acos) does not: its value changes with the sign the eigen-solver happens to return."""
    S, Cc = Poly.atom(("sym", "sin_a")), Poly.atom(("sym", "cos_a"))
    s0, s1 = Poly.atom(("sym", "sigma0")), Poly.atom(("sym", "sigma1"))
    entry = {(0, 0): -(s0 * S), (0, 1): s0 * Cc, (1, 0): s1 * Cc, (1, 1): s1 * S}

    def atomize(t):
        if t[0] == "elem" and t[1][0] == "field" and t[1][2] == "ZH" and len(t) == 4 and t[2][0] == "num" and t[3][0] == "num":
            return Rat(entry[(int(t[2][1]), int(t[3][1]))])
        return None

    def sigma_reduce(p):
        out = Poly()
        for m, c in p.t.items():
            mono = tuple((a, (e % 2 if a in (("sym", "sigma0"), ("sym", "sigma1")) else e)) for a, e in m)
            mono = tuple(x for x in mono if x[1])
            out = out + Poly({mono: c})
        return out

    if a0[0] != "call":
        return False, "alpha_h is not an inverse trigonometric function of ZH: %s" % show(a0)[:60]
    fn = str(a0[1])
    try:
        if fn == "atan2" and len(a0[2]) == 2:
            y, x = to_rat(a0[2][0], atomize), to_rat(a0[2][1], atomize)
        elif fn == "atan" and len(a0[2]) == 1:
            r = to_rat(a0[2][0], atomize)
            y, x = Rat(r.n), Rat(r.d)
        else:
            return False, ("alpha_h = %s is computed from a single component of an eigenvector whose overall sign is "
                           "arbitrary (the diagonalisation contract allows ZH -> diag(+-1, +-1) ZH): the reported angle "
                           "changes with the sign the eigen-solver returns" % show(a0)[:50])
        res = sigma_reduce(y.n * x.d * Cc - x.n * y.d * S)
        if not res.is_zero():
            return False, "tan(alpha_h) = (%s)/(%s) is not tan(alpha) for every sign convention of the eigenvectors" % (
                show(a0[2][0])[:40], show(a0[2][-1])[:40])
        return True, ""
    except NotPolynomial as ex:
        return False, str(ex)[:100]


def run(F, R, tier):
    R.explanation = (
        "(R1) the THDM Higgs mass matrices equal the Hessian of the documented general 2HDM potential (plus "
        "Feynman-gauge Goldstone terms), W/Z and fermion matrices in standard form; (R2) the tadpoles are the "
        "potential's gradient and solve_ewsb_tree_level solves them identically; (R3) Goldstone reordering to "
        "index 0 happens last; tachyon flags as in C04; (R4) lambda_6, lambda_7, m12^2, tan(beta) (and in the "
        "gauge basis lambda_1..5) reach the model unmodified; (R6) the closed-form inversion "
        "masses -> lambda_1..5 is exact: substituting the lambdas the constructor computes (and the EWSB "
        "solution) into the specification's mass matrices yields R(alpha) diag(mH^2, mh^2) R(alpha)^T, "
        "mA^2 and mH+^2 times the projector orthogonal to the Goldstone direction -- as identities in all "
        "inputs, so the tree-level spectrum of a mass-basis model is exactly its input.")
    R.assumptions = ["the 2HDM potential of arXiv:2110.13238 Eq.(1) as written in rules_c08.spec"]
    R.undecided = ["get_alpha_h / sin(beta-alpha) read back from the numerical eigenvector (sign convention of the "
                   "eigen-solver; the property text records a defect there away from alignment)",
                   "SM fermion masses and CKM reproduction through the SVD (numerical)"]
    E = Evaluator(F)
    sp = spec()

    # ---- R1 ------------------------------------------------------------------------
    R.rule("R1", "THDM mass matrices == Hessian of the 2HDM potential (+ Goldstone gauge-fixing), W, Z", 14)
    for nm, key in (("hh", "hh"), ("Ah", "Ah"), ("Hm", "Hm"), ("VWm", "VWm"), ("VZ", "VZ")):
        f = F.fn(CLS + "::get_mass_matrix_" + nm)
        v, fr = E.function_value(f)
        ents, dims = as_entries(v)
        s_ = sp[key]
        if not isinstance(s_, list):
            s_ = [[s_]]
        for i in range(dims[0]):
            for k in range(dims[1]):
                t = ents.get((i, k))
                inst = "%s(%d,%d)" % (nm, i, k)
                if t is None:
                    R.fail("R1", inst, F.loc(f), "entry not assigned", key="R1|%s|%d%d|unset" % (nm, i, k))
                    continue
                try:
                    ok, res = equal_rat(t, s_[i][k])
                except NotPolynomial as ex:
                    R.soft_broken("R1 %s: %s" % (inst, ex))
                    continue
                R.check("R1", ok, inst, F.loc(f), "differs from the potential: code - spec = %s" % repr(res)[:200],
                        key="R1|%s|%d%d" % (nm, i, k))
    # fermion mass matrices (v1 Gamma_f + v2 Pi_f)/sqrt2
    R.rule("R1f", "fermion mass matrices are (v1 Gamma_f + v2 Pi_f)/sqrt2", 3)
    for f_, G, P in (("Fu", "Gamma_u", "Pi_u"), ("Fd", "Gamma_d", "Pi_d"), ("Fe", "Gamma_l", "Pi_l")):
        f = F.fn(CLS + "::get_mass_matrix_" + f_)
        v, fr = E.function_value(f)
        want = (fld("v1") * fld(G) + fld("v2") * fld(P)) * INV_SQRT2
        try:
            ok, res = equal_rat(v, want)
        except NotPolynomial as ex:
            R.soft_broken("R1f %s: %s" % (f_, ex))
            continue
        R.check("R1f", ok, "%s = (v1 %s + v2 %s)/sqrt2" % (f_, G, P), F.loc(f), "is %s" % show(v)[:120], key="R1f|" + f_)

    # ---- R2 EWSB --------------------------------------------------------------------
    R.rule("R2", "tadpoles == gradient of the potential; solve_ewsb_tree_level solves them identically", 4)
    for i, nm in enumerate(("get_ewsb_eq_hh_1", "get_ewsb_eq_hh_2")):
        f = F.fn(CLS + "::" + nm)
        v, fr = E.function_value(f)
        ok, res = equal_rat(v, sp["_tadpoles"][i])
        R.check("R2", ok, "%s == dV/drho_%d" % (nm, i + 1), F.loc(f), "residual %r" % res, key="R2|" + nm)
    f = F.fn(CLS + "::solve_ewsb_tree_level")
    fr = Frame(E, f, {}, TH, 0)
    fr.run()
    sol = {}
    for k_, v_ in fr.heap.items():
        if k_ in ("m112", "m222"):
            t = v_
            while isinstance(t, tuple) and t[0] == "ite":
                cand = [x for x in (t[2], t[3]) if not (x[0] == "field" and x[2] in ("m112", "m222"))]
                t = cand[0] if cand else t[2]
            sol[k_] = to_rat(t)
    if set(sol) != {"m112", "m222"}:
        R.broken("R2: solve_ewsb_tree_level does not assign m112, m222")
    a1, a2 = ("field", TH, "m112"), ("field", TH, "m222")
    ewsb_map = {a1: sol["m112"], a2: sol["m222"]}
    for i in range(2):
        tot = subs_rat(sp["_tadpoles"][i], ewsb_map)
        R.check("R2", tot.is_zero(), "tadpole %d vanishes for the EWSB solution" % (i + 1), F.loc(f),
                "residual %r" % tot.n, key="R2|solution|%d" % i)

    # ---- R3 order, Goldstones, tachyons ----------------------------------------------------
    R.rule("R3", "reorder_MSbar_masses runs last in calculate_boson_masses; Goldstones to index 0 by MZ / MW", 2)
    f = F.fn(CLS + "::calculate_boson_masses")
    seq = [x["fn"].split("::")[-1] for s_ in f["body"].get("c", []) for x in walk(s_)
           if is_call(x) and (x.get("fn") or "").startswith(CLS + "::")]
    calc = [i for i, s_ in enumerate(seq) if s_.startswith("calculate_M")]
    ro = [i for i, s_ in enumerate(seq) if s_.startswith("reorder")]
    R.check("R3", len(ro) == 1 and calc and ro[0] > max(calc), "order: %s" % seq, F.loc(f), "reordering is not last", key="R3|order")
    g = F.fn(CLS + "::reorder_MSbar_masses")
    Rr = Renderer(g)
    calls = sorted(Rr.r(x) for x in walk(g["body"]) if is_call(x) and (x.get("fn") or "").endswith("move_goldstone_to"))
    R.check("R3", calls == ["move_goldstone_to(0, MVWm, MHm, ZP)", "move_goldstone_to(0, MVZ, MAh, ZA)"], "Goldstones: %s" % calls,
            F.loc(g), "Goldstone reordering arguments changed", key="R3|goldstone")

    # ---- R4 unmodified flow ---------------------------------------------------------------------
    R.rule("R4", "lambda_6, lambda_7, m12^2 (both bases) and lambda_1..5 (gauge basis) are stored unmodified; "
                 "tan(beta) is stored as v2/v1 with v1^2 + v2^2 = v^2", 15)
    Eb = Evaluator(F, inline=lambda n, g_: not re.search(
        r"::(validate|solve_ewsb|init_yukawas|calculate_MSbar_masses|get_problems|get_v)$", n))
    heaps = {}
    for f in F.fns("gm2calc::THDM::set_basis"):
        bt = "Gauge_basis" if "Gauge_basis" in (f["params"][0]["t"] or "") else "Mass_basis"
        fr = Frame(Eb, f, {f["params"][0]["id"]: ("sym", "basis")}, TH, 0)
        fr.run()
        heaps[bt] = (f, fr)
        b = ("sym", "basis")

        def got(name):
            v_ = fr.heap.get(name)
            while isinstance(v_, tuple) and v_ and v_[0] == "ite":
                v_ = v_[3]
            return v_
        want = {"lambda6": ("field", b, "lambda_6") if bt == "Mass_basis" else ("elem", ("field", b, "lambda"), num(5)),
                "lambda7": ("field", b, "lambda_7") if bt == "Mass_basis" else ("elem", ("field", b, "lambda"), num(6)),
                "m122": ("field", b, "m122")}
        if bt == "Gauge_basis":
            for i in range(5):
                want["lambda%d" % (i + 1)] = ("elem", ("field", b, "lambda"), num(i))
        for k_, w in sorted(want.items()):
            g_ = got(k_)
            R.check("R4", g_ == w, "set_basis(%s): %s := %s" % (bt, k_, show(g_) if g_ else None), F.loc(f),
                    "%s is stored as %s, not as the input %s" % (k_, show(g_)[:80] if g_ else "nothing", show(w)), key="R4|%s|%s" % (bt, k_))
        # tan(beta): v2/v1 == basis.tan_beta and v1^2 + v2^2 == v^2
        v1_, v2_ = got("v1"), got("v2")
        try:
            r1 = to_rat(("-", ("/", v2_, v1_), ("field", b, "tan_beta")))
            r2 = to_rat(("-", ("+", ("*", v1_, v1_), ("*", v2_, v2_)), ("*", ("call", "gm2calc::SM::get_v", (("field", TH, "sm"),)),
                                                                       ("call", "gm2calc::SM::get_v", (("field", TH, "sm"),)))))
            n1 = _reduce_roots(_reduce_roots(r1.n))
            n2 = _reduce_roots(_reduce_roots(r2.n))
            R.check("R4", n1.is_zero(), "set_basis(%s): v2/v1 == basis.tan_beta" % bt, F.loc(f), "residual %r" % n1, key="R4|%s|tb" % bt)
            R.check("R4", n2.is_zero(), "set_basis(%s): v1^2 + v2^2 == v^2" % bt, F.loc(f), "residual %r" % n2, key="R4|%s|v" % bt)
        except (NotPolynomial, TypeError) as ex:
            R.soft_broken("R4 %s: %s" % (bt, ex))

    # ---- R7 reported mixing angle ---------------------------------------------------------------
    R.rule("R7", "sin/cos(beta - alpha) are computed from the one normalised alpha_h (beta - alpha_h in [-pi/2, pi/2], "
                 "hence cos >= 0); alpha_h is shifted by -+pi exactly when beta - alpha_h leaves that interval", 3)
    En = Evaluator(F, inline=lambda n, g_: not re.search(r"::(get_alpha_h|get_beta)$", n))
    bma_t = ("-", ("call", CLS + "::get_beta", (TH,)), ("call", CLS + "::get_alpha_h", (TH,)))
    for nm, fn_ in (("get_sin_beta_minus_alpha", "sin"), ("get_cos_beta_minus_alpha", "cos")):
        f = F.fn(CLS + "::" + nm)
        v, fr_ = En.function_value(f)
        ok = False
        try:
            ok = v[0] == "call" and v[1] == fn_ and len(v[2]) == 1 and \
                to_rat(("-", _norm_getters(v[2][0]), _norm_getters(bma_t))).is_zero()
        except NotPolynomial:
            ok = False
        R.check("R7", ok, "%s = %s" % (nm, show(v)[:80]), F.loc(f),
                "reported %s(beta-alpha) bypasses the normalised alpha_h: %s" % (fn_, show(v)[:100]), key="R7|" + nm)
    # get_alpha_h: alpha0 = asin(ZH(1,1)), shifted by -pi / +pi exactly when beta - alpha0 is below -pi/2 / above +pi/2
    f = F.fn(CLS + "::get_alpha_h")
    from .rules_c11 import _cases
    v, fr_ = En.function_value(f)
    ok, why = True, ""
    try:
        lv = _cases(v, [])
        a0 = [val for fa, val in lv if not [c for c, t in fa if t]]
        if len(a0) != 1:
            ok, why = False, "no unshifted branch"
        else:
            a0 = a0[0]
            ok, why = _angle_of_heavy_eigenvector(a0)
            bma = to_rat(_norm_getters(("-", ("call", CLS + "::get_beta", (TH,)), a0)))
            half_pi = Rat(Poly.atom(PI)) * Rat(Poly.const(Fraction(1, 2)))
            seen = set()
            for fa, val in lv:
                dv = to_rat(("-", val, a0))
                kk = None
                for cand in (-2, -1, 0, 1, 2):
                    if (dv - Rat(Poly.atom(PI)) * Rat(Poly.const(cand))).is_zero():
                        kk = Fraction(cand)
                if kk is None:
                    ok, why = False, "a branch returns %s" % show(val)[:60]
                    break
                true = [c for c, t in fa if t]
                sides = set()
                for c in true:
                    if c[0] != "cmp" or c[1] not in ("<", "<="):
                        continue
                    d_ = to_rat(("-", _norm_getters(c[2]), _norm_getters(c[3])))        # l - r < 0
                    lo_ = d_ - (bma + half_pi)            # bma + pi/2 + e < 0
                    hi_ = d_ - (half_pi - bma)            # pi/2 + e - bma < 0
                    for tag, r_ in (("low", lo_), ("high", hi_)):
                        eps_atoms = {a: Poly.const(Fraction(1, 2 ** 52)) for a in r_.n.atoms()
                                     if isinstance(a, tuple) and a[0] == "call" and str(a[1]).split("::")[-1] == "epsilon"}
                        if eps_atoms:
                            r_ = Rat(r_.n.subs(eps_atoms), r_.d)
                        if r_.d.is_const() and (r_.n.is_const() or not r_.n.t):
                            e_ = r_.n.const_value() / r_.d.const_value() if r_.n.t else Fraction(0)
                            if 0 <= e_ < Fraction(1, 10 ** 6):
                                sides.add(tag)
                if sides == {"low", "high"}:
                    continue             # infeasible: beta - alpha_h cannot be below -pi/2 and above pi/2
                want = {Fraction(-1): {"low"}, Fraction(1): {"high"}, Fraction(0): set()}.get(kk)
                if want is None or sides != want:
                    ok, why = False, "shift %s*pi under %s" % (kk, [show(c)[:40] for c in true])
                    break
                seen.add(kk)
            if ok and seen != {Fraction(-1), Fraction(0), Fraction(1)}:
                ok, why = False, "shifts found: %s" % sorted(seen)
    except NotPolynomial as ex:
        ok, why = False, str(ex)[:100]
    R.check("R7", ok, "get_alpha_h = angle of the heavy CP-even eigenvector (independent of the eigenvector's arbitrary overall sign), "
                      "-+ pi exactly when beta - alpha_h is below -pi/2 / above pi/2", F.loc(f),
            "the normalisation of alpha_h to beta - alpha_h in [-pi/2, pi/2] changed: %s" % why, key="R7|alpha_h")

    # ---- R9 a model is built from its own inputs only ---------------------------------------------------------------------
    R.guard(_fresh_yukawas, F, R)
    R.rule("R9", "no static-storage variable of the THDM model code is initialised from run-time values (a `static const` built from the "
                 "first model's SM input or CKM matrix would be reused by every model constructed later in the process)", 3)
    for key, g in sorted(F.globals.items()):
        if g["file"] not in ("src/THDM/THDM.cpp", "src/THDM/THDM_mass_eigenstates.cpp", "src/THDM/THDM_parameters.cpp", "src/SM/SM.cpp"):
            continue
        ini = g.get("init")
        bad = None
        if ini is not None:
            for n in walk(ini):
                if (n.get("k") == "DeclRefExpr" and n.get("rk") in ("Param", "Var")) or n.get("k") == "CXXThisExpr" or \
                        (n.get("k") == "MemberExpr" and n.get("mk") == "Field"):
                    bad = n
                    break
        ok = bad is None and (g["const"] or g["constexpr"] or str(g["t"]).startswith("const "))
        R.check("R9", ok, "%s is a compile-time style constant" % g["name"].split("::")[-1], "%s:%s" % (g["file"], g["line"]),
                "static `%s` depends on run-time data (%s): the second model built in a process gets the first model's value and no "
                "longer reproduces its own input" % (g["name"].split("::")[-1], (bad.get("n") or bad.get("sn") or "this") if bad else "writable"),
                key="R9|" + g["name"])

    # ---- R8 CKM enters the up-type Yukawa matrices as V^dagger ------------------------------------------
    R.rule("R8", "init_yukawas uses the CKM matrix only through its adjoint (M_u = V_CKM^dagger diag(m_u), so that the quark "
                 "mixing matrices reproduce the input CKM matrix incl. its CP phase)", 1)
    g = F.fn("gm2calc::THDM::init_yukawas")
    Sg = Struct(g)
    uses = [n for n in walk(g["body"]) if is_call(n) and str(n.get("fn", "")).endswith("::get_ckm")]
    bad = []
    for n in uses:
        p_ = Sg.parent(n)
        while p_ is not None and p_.get("k") in ("ImplicitCastExpr", "ParenExpr", "MaterializeTemporaryExpr", "MemberExpr",
                                                  "CXXBindTemporaryExpr"):
            p_ = Sg.parent(p_)
        chain = []
        while p_ is not None and is_call(p_) and str(p_.get("fn", "")).split("::")[-1] in ("adjoint", "transpose", "conjugate", "eval"):
            chain.append(str(p_.get("fn", "")).split("::")[-1])
            p_ = Sg.parent(p_)
            while p_ is not None and p_.get("k") in ("ImplicitCastExpr", "ParenExpr", "MaterializeTemporaryExpr", "MemberExpr",
                                                      "CXXBindTemporaryExpr"):
                p_ = Sg.parent(p_)
        ops = sorted(c for c in chain if c != "eval")
        if ops not in (["adjoint"], ["conjugate", "transpose"]):
            bad.append("get_ckm() used through %s at line %s" % ("/".join(chain) or (p_ or {}).get("k"), n.get("l")))
    if not uses:
        R.soft_broken("R8: init_yukawas does not call get_ckm() (anchor moved?)")
    else:
        R.check("R8", not bad, "init_yukawas: %d use(s) of get_ckm(), all as get_ckm().adjoint()" % len(uses), F.loc(g),
                "; ".join(bad) + ": for a complex CKM matrix the up-type mass matrix is no longer V^dagger diag(m_u)",
                key="R8|ckm")

    # ---- R6 closed-form inversion -------------------------------------------------------------------
    R.rule("R6", "mass basis: with the lambda_1..5 computed by the constructor and the EWSB solution, the specification's "
                 "mass matrices are exactly R(alpha) diag(mH^2, mh^2) R(alpha)^T, mA^2 P, mH+^2 P (P = projector "
                 "orthogonal to the Goldstone direction)", 9)
    f, fr = heaps.get("Mass_basis", (None, None))
    if fr is None:
        R.broken("R6: set_basis(Mass_basis) not found")
    try:
        def H(name):
            v_ = fr.heap.get(name)
            if v_ is None:
                raise AnalysisBroken("R6: %s is not assigned by set_basis(Mass_basis)" % name)
            return to_rat(expand_trig(v_))
        lam = {("field", TH, "lambda%d" % i): H("lambda%d" % i) for i in range(1, 8)}
        lam[("field", TH, "m122")] = H("m122")
        lam[("field", TH, "v1")] = H("v1")
        lam[("field", TH, "v2")] = H("v2")
        # EWSB solution with the same substitutions
        e1 = subs_rat(sol["m112"].n, lam) / subs_rat(sol["m112"].d, lam)
        e2 = subs_rat(sol["m222"].n, lam) / subs_rat(sol["m222"].d, lam)
        full = dict(lam)
        full[a1] = e1
        full[a2] = e2
        b = ("sym", "basis")
        mh, mH, mA, mHp = (Rat(Poly.atom(("field", b, x))) for x in ("mh", "mH", "mA", "mHp"))
        # alpha = beta - (beta - alpha) with beta = atan(tan beta), beta - alpha = asin(sin(beta - alpha)) (so cos(beta-alpha) >= 0):
        #   sin(alpha) = (tb R2 - sba)/R1,  cos(alpha) = (R2 + tb sba)/R1,  R1 = sqrt(1 + tb^2),  R2 = sqrt(1 - sba^2)
        # every sin/cos of sums of atan/asin in the constructor's values has been expanded into these square roots
        # (expand_trig), so a trig-free spelling of the constructor is compared on equal terms
        tbt, sbat = ("field", b, "tan_beta"), ("field", b, "sin_beta_minus_alpha")
        R1t = ("call", "sqrt", (("+", num(1), ("*", tbt, tbt)),))
        R2t = ("call", "sqrt", (("-", num(1), ("*", sbat, sbat)),))
        sa = to_rat(("/", ("-", ("*", tbt, R2t), sbat), R1t))
        ca = to_rat(("/", ("+", R2t, ("*", tbt, sbat)), R1t))
        tb = Rat(Poly.atom(("field", b, "tan_beta")))
        one = Rat(Poly.const(1))
        # cos^2 beta = 1/(1+tb^2), sin beta cos beta = tb/(1+tb^2), sin^2 beta = tb^2/(1+tb^2)
        den = one + tb * tb
        sb2, cb2, sbcb = tb * tb / den, one / den, tb / den
        targets = {
            "hh": [[mH * mH * ca * ca + mh * mh * sa * sa, (mH * mH - mh * mh) * sa * ca],
                   [(mH * mH - mh * mh) * sa * ca, mH * mH * sa * sa + mh * mh * ca * ca]],
            "Ah0": [[mA * mA * sb2, -(mA * mA * sbcb)], [-(mA * mA * sbcb), mA * mA * cb2]],
            "Hm0": [[mHp * mHp * sb2, -(mHp * mHp * sbcb)], [-(mHp * mHp * sbcb), mHp * mHp * cb2]],
        }
        for key, tgt in targets.items():
            for i in range(2):
                for k in range(i, 2):
                    got_ = subs_rat(sp[key][i][k], full)
                    diff = got_ - tgt[i][k]
                    n_ = diff.n
                    for _ in range(8):
                        n_ = _reduce_roots(n_)
                    label = {"hh": "CP-even", "Ah0": "CP-odd", "Hm0": "charged"}[key]
                    R.check("R6", n_.is_zero(), "%s mass matrix (%d,%d) == spectral form of the inputs" % (label, i, k), F.loc(f),
                            "the lambdas computed from (mh, mH, mA, mH+, sin(beta-alpha), tan beta, lambda6, lambda7, m12^2) do "
                            "not reproduce the input spectrum: residual has %d terms (e.g. %s)" % (len(n_.t), repr(n_)[:160]),
                            key="R6|%s|%d%d" % (key, i, k))
    except NotPolynomial as ex:
        R.soft_broken("R6: %s" % ex)
    except AnalysisBroken as ex:
        R.soft_broken(str(ex))


def _fresh_yukawas(F, R):
    """typestate: the Yukawa matrices Gamma_f / Pi_f are derived by init_yukawas() from v1, v2, the Yukawa type, zeta_f and
    Pi_f(input); an operation that writes one of these inputs and then computes the spectrum must re-derive them in between"""
    from .rules_c16 import FieldFlow
    from .facts import walk as _walk, is_call as _is_call
    R.rule("R10", "every THDM operation that writes an input of init_yukawas() (v1, v2, Yukawa parameters) and then computes the "
                  "spectrum calls init_yukawas() between the last such write and the spectrum calculation: the fermion mass matrices "
                  "are never built from Yukawa couplings that belong to other vacuum expectation values", 2)
    FW = FieldFlow(F)
    iy = F.fn("gm2calc::THDM::init_yukawas")
    reads = set(FW.reads(iy["body"])) - set(FW.writes(iy["body"]))
    reads = {x for x in reads if re.search(r"::(v1|v2|zeta_[udl]|yukawa_type|Pi_[udl])$", x)}
    if not any(x.endswith("::v1") for x in reads):
        R.broken("R10: init_yukawas no longer reads v1 (%s)" % sorted(reads))
        return
    calc = F.fn("gm2calc::THDM_mass_eigenstates::calculate_MSbar_masses")["mg"]
    n_ops = 0
    for key, f in sorted(F.functions.items()):
        if (f.get("method") or {}).get("cls") != "gm2calc::THDM" or f is iy or f.get("body") is None:
            continue
        stmts = f["body"].get("c", [])
        clos = [FW.stmt_closure(st) | {n.get("mg") for n in _walk(st) if _is_call(n)} for st in stmts]
        mass = [i for i, c in enumerate(clos) if calc in c]
        if not mass:
            continue
        wr = [i for i, st in enumerate(stmts) if FW.writes(st) & reads and iy["mg"] not in clos[i]]
        if not wr:
            continue
        n_ops += 1
        last_w = max(i for i in wr if i <= mass[-1]) if any(i <= mass[-1] for i in wr) else None
        if last_w is None:
            continue
        first_mass = min(i for i in mass if i >= last_w)
        ok = any(iy["mg"] in clos[j] for j in range(last_w, first_mass + 1))
        who = sorted(x.split("::")[-1] for x in (FW.writes(stmts[last_w]) & reads))
        R.check("R10", ok, "%s(%s): init_yukawas between the write of %s and calculate_MSbar_masses"
                % (f["name"].split("::")[-1], ", ".join((p["t"] or "").split("::")[-1] for p in f["params"]), ", ".join(who)),
                F.loc(f, stmts[last_w]),
                "%s writes %s and recomputes the spectrum without re-deriving the Yukawa matrices: the fermion masses no longer "
                "equal the SM input masses" % (f["name"].split("::")[-1], ", ".join(who)),
                key="R10|%s|%d" % (f["name"], len(f["params"])))
    if n_ops < 2:
        R.broken("R10: only %d THDM operations write Yukawa inputs and compute the spectrum (two set_basis expected)" % n_ops)
