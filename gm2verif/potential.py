"""Independent oracles: scalar mass matrices as Hessians of a tree-level potential written down
from the Lagrangian (exact polynomial arithmetic; complex fields as pairs of real polynomials)."""
from fractions import Fraction

from .poly import Poly, Rat

SQRT2 = Poly.atom(("sqrtQ", Fraction(2)))
INV_SQRT2 = SQRT2.scale(Fraction(1, 2))


class C:
    """complex polynomial re + i im"""

    def __init__(self, re=None, im=None):
        self.re = re if re is not None else Poly()
        self.im = im if im is not None else Poly()

    def __add__(self, o):
        return C(self.re + o.re, self.im + o.im)

    def __sub__(self, o):
        return C(self.re - o.re, self.im - o.im)

    def __mul__(self, o):
        if isinstance(o, Poly):
            return C(self.re * o, self.im * o)
        return C(self.re * o.re - self.im * o.im, self.re * o.im + self.im * o.re)

    def conj(self):
        return C(self.re, -self.im)

    def abs2(self):
        return self.re * self.re + self.im * self.im

    def scale(self, k):
        return C(self.re.scale(k), self.im.scale(k))


def A(name):
    return Poly.atom(name)


def hessian(V, fields, background=None):
    """matrix of second derivatives of polynomial V w.r.t. the real `fields`, evaluated at fields = 0"""
    zero = {f: Poly() for f in fields}
    n = len(fields)
    H = [[None] * n for _ in range(n)]
    for i in range(n):
        di = V.diff(fields[i])
        for j in range(i, n):
            dij = di.diff(fields[j]).subs(zero)
            H[i][j] = H[j][i] = dij
    return H


def gradient(V, fields):
    zero = {f: Poly() for f in fields}
    return [V.diff(f).subs(zero) for f in fields]
