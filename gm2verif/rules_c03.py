"""C03 -- one-loop a_mu: the code's expression in terms of the reported masses, mixing matrices and Yukawa
couplings is the published formula (structural clause; the numerical diagonalisation is not decided)."""
import re
from fractions import Fraction

from .facts import walk, strip_all, call_args, is_call
from .terms import Evaluator, show, subterms, num, subst_fold
from .poly import Poly, Rat, to_rat, NotPolynomial, PI
from .eigenalg import Elementwise, FieldTypes, CAlg, Undecided, IMAG
from .rules_c20 import _reduce_roots
from .extract import AnalysisBroken

PID = "C03"
LEVEL = "other"

LOOP = re.compile(r"^gm2calc::(F1C|F2C|F1N|F2N|F3C|F4C|F3N|F4N)$")
M = ("sym", "model")
P = ("sym", "pars")


def K(x):
    return Rat(Poly.const(Fraction(x)))


def SQ(r):
    return Rat(Poly.atom(("sqrtQ", Fraction(r))))


def fld(base, n):
    return ("field", base, n)


def el(base, n, *idx):
    return ("elem", ("field", base, n)) + tuple(num(i) for i in idx)


class LoopAtoms:
    """loop-function calls become atoms named by the *value* of their argument: the argument is converted to a
    rational function and matched against the arguments the specification uses"""

    def __init__(self):
        self.expected = []     # (fname, key, Rat)
        self.unmatched = []

    def spec(self, fname, key, arg_rat):
        self.expected.append((fname, key, arg_rat))
        return Rat(Poly.atom(("L", fname, key)))

    def atomize(self, t, alg):
        if t[0] == "call" and LOOP.match(str(t[1])) and len(t[2]) == 1:
            fname = str(t[1]).split("::")[-1]
            try:
                a = alg.rat(t[2][0])
            except NotPolynomial:
                self.unmatched.append((fname, show(t[2][0])[:120]))
                return Rat(Poly.atom(t))
            for fn, key, r in self.expected:
                if fn == fname and _zero(a.n * r.d - r.n * a.d):
                    return Rat(Poly.atom(("L", fname, key)))
            self.unmatched.append((fname, show(t[2][0])[:120]))
            return Rat(Poly.atom(t))
        return None


def _zero(p):
    for _ in range(6):
        p = _reduce_roots(p)
    return p.is_zero()


def _residual(code, spec):
    p = code.n * spec.d - spec.n * code.d
    for _ in range(6):
        p = _reduce_roots(p)
    return p


# ---- specifications (written independently of the code: hep-ph/0609168 Eqs. (46)-(51) conventions) ------------
def spec_mssm(alg, L):
    A = lambda t: alg.atom(t)
    g1, g2 = A(fld(M, "g1")), A(fld(M, "g2"))
    gY = g1 * SQ(15) * K(Fraction(1, 5))                 # sqrt(3/5) g1
    ymu = A(el(M, "Ye", 1, 1))
    mmu = A(fld(fld(M, "physical"), "MFm"))
    N = lambda i, k: A(el(M, "ZN", i, k))                # N^* M N^dagger = diag (SLHA convention)
    X = lambda m, k: A(el(M, "ZM", m, k))                # smuon mixing, real
    U = lambda k, a: A(el(M, "UM", k, a))                # U^* X V^dagger = diag
    V = lambda k, a: A(el(M, "UP", k, a))
    mchi = lambda i: A(el(M, "MChi", i))
    mcha = lambda k: A(el(M, "MCha", k))
    msm = lambda m: A(el(M, "MSm", m))
    msv = A(fld(M, "MSvmL"))
    pref = K(Fraction(1, 16)) / Rat(Poly.atom(PI) ** 2)
    inv_sqrt2 = SQ(2) * K(Fraction(1, 2))
    chi0 = K(0)
    for i in range(4):
        for m in range(2):
            nL = inv_sqrt2 * (g2 * N(i, 1) + gY * N(i, 0)) * alg.conj(X(m, 0)) - ymu * N(i, 2) * alg.conj(X(m, 1))
            nR = SQ(2) * gY * N(i, 0) * X(m, 1) + ymu * N(i, 2) * X(m, 0)
            x = mchi(i) * mchi(i) / (msm(m) * msm(m))
            f1 = L.spec("F1N", ("chi0", i, m), x)
            f2 = L.spec("F2N", ("chi0", i, m), x)
            re_lr = (nL * nR + alg.conj(nL * nR)) * K(Fraction(1, 2))
            chi0 = chi0 + (-(mmu / (K(12) * msm(m) * msm(m))) * (nL * alg.conj(nL) + nR * alg.conj(nR)) * f1
                           + mchi(i) / (K(3) * msm(m) * msm(m)) * re_lr * f2)
    chi0 = chi0 * mmu * pref
    chipm = K(0)
    for k in range(2):
        cL = -g2 * V(k, 0)
        cR = ymu * U(k, 1)
        x = mcha(k) * mcha(k) / (msv * msv)
        f1 = L.spec("F1C", ("cha", k), x)
        f2 = L.spec("F2C", ("cha", k), x)
        re_lr = (cL * cR + alg.conj(cL * cR)) * K(Fraction(1, 2))
        chipm = chipm + (mmu / (K(12) * msv * msv) * (cL * alg.conj(cL) + cR * alg.conj(cR)) * f1
                         + K(2) * mcha(k) / (K(3) * msv * msv) * re_lr * f2)
    chipm = chipm * mmu * pref
    return chi0, chipm


def spec_thdm(alg, L):
    """flavour-summed one-loop 2HDM contribution minus the SM Higgs term, in terms of the Yukawa matrices
    y^S (S = h, H, A, H+; muon = generation index 1) and the masses handed to the formula"""
    A = lambda t: alg.atom(t)
    mm = A(fld(P, "mm"))
    mw, mz, mhSM = A(fld(P, "mw")), A(fld(P, "mz")), A(fld(P, "mhSM"))
    mA, mHp = A(fld(P, "mA")), A(fld(P, "mHp"))
    alpha = A(fld(P, "alpha_em"))
    ml = lambda g: A(el(P, "ml", g))
    mv = lambda g: A(el(P, "mv", g))
    mh = lambda i: A(el(P, "mh", i))
    y = lambda S, i, k: A(el(P, "yl" + S, i, k))
    pi = Rat(Poly.atom(PI))
    # v^2 = 4 mw^2/g2^2, g2^2 = e^2/sw^2, e^2 = 4 pi alpha, sw^2 = 1 - mw^2/mz^2
    v2 = K(4) * mw * mw * (K(1) - mw * mw / (mz * mz)) / (K(4) * pi * alpha)

    def neutral(S, mS2, sign, tag):
        r = K(0)
        for f in range(3):
            x = ml(f) * ml(f) / mS2
            f1 = L.spec("F1C", (tag, f), x)
            f2 = L.spec("F2C", (tag, f), x)
            yy = y(S, f, 1) * y(S, 1, f)
            r = r + (y(S, f, 1) * alg.conj(y(S, f, 1)) + y(S, 1, f) * alg.conj(y(S, 1, f))) * f1 * K(Fraction(1, 24)) \
                + K(sign) * (yy + alg.conj(yy)) * K(Fraction(1, 2)) * (ml(f) / ml(1)) * f2 * K(Fraction(1, 3))
        return r / mS2

    res = neutral("h", mh(0) * mh(0), 1, "h") + neutral("H", mh(1) * mh(1), 1, "H") + neutral("A", mA * mA, -1, "A")
    ch = K(0)
    for f in range(3):
        fa = L.spec("F1N", ("Hp", 1), mv(1) * mv(1) / (mHp * mHp))
        fb = L.spec("F1N", ("Hp", f), mv(f) * mv(f) / (mHp * mHp))
        ch = ch - y("Hp", f, 1) * alg.conj(y("Hp", f, 1)) * K(Fraction(1, 48)) * (fa + fb)
    res = res + ch / (mHp * mHp)
    # SM Higgs: diagonal real coupling m_mu/v to the muon only
    x = ml(1) * ml(1) / (mhSM * mhSM)
    f1 = L.spec("F1C", ("hSM",), x)
    f2 = L.spec("F2C", ("hSM",), x)
    ysm2 = mm * mm / v2
    res = res - (K(2) * ysm2 * f1 * K(Fraction(1, 24)) + ysm2 * f2 * K(Fraction(1, 3))) / (mhSM * mhSM)
    return mm * mm * res / (K(8) * pi * pi)


def spec_thdm_approx(alg, L):
    A = lambda t: alg.atom(t)
    mm = A(fld(P, "mm"))
    mw, mz, mhSM = A(fld(P, "mw")), A(fld(P, "mz")), A(fld(P, "mhSM"))
    mA, mHp = A(fld(P, "mA")), A(fld(P, "mHp"))
    alpha = A(fld(P, "alpha_em"))
    mh = lambda i: A(el(P, "mh", i))
    y = lambda S: A(el(P, "yl" + S, 1, 1))
    pi = Rat(Poly.atom(PI))
    v2 = K(4) * mw * mw * (K(1) - mw * mw / (mz * mz)) / (K(4) * pi * alpha)

    def Fh(tag, m2):
        x = mm * mm / m2
        return L.spec("F1C", (tag,), x) * K(Fraction(1, 12)) + L.spec("F2C", (tag,), x) * K(Fraction(1, 3))

    def FA(tag, m2):
        x = mm * mm / m2
        return L.spec("F1C", (tag,), x) * K(Fraction(1, 12)) - L.spec("F2C", (tag,), x) * K(Fraction(1, 3))

    def FHp(tag, m2):
        return -L.spec("F1N", (tag,), mm * mm / m2) * K(Fraction(1, 12))

    n2 = lambda z: z * alg.conj(z)
    res = n2(y("h")) / (mh(0) * mh(0)) * Fh("h", mh(0) * mh(0)) + n2(y("H")) / (mh(1) * mh(1)) * Fh("H", mh(1) * mh(1)) \
        + n2(y("A")) / (mA * mA) * FA("A", mA * mA) + K(Fraction(1, 2)) * n2(y("Hp")) / (mHp * mHp) * FHp("Hp", mHp * mHp) \
        - mm * mm / (v2 * mhSM * mhSM) * Fh("hSM", mhSM * mhSM)
    return mm * mm * res / (K(8) * pi * pi)


# parameter plumbing of calculate_amu_1loop(THDM): field of THDM_1L_parameters <- (getter, index)
PLUMBING = {
    "alpha_em": ("get_alpha_em", None), "mm": ("get_MFe", 1), "mw": ("get_MVWm", None), "mz": ("get_MVZ", None),
    "mhSM": ("sm.mh", None), "mA": ("get_MAh", 1), "mHp": ("get_MHm", 1), "ml": ("get_MFe", None),
    "mv": ("get_MFv", None), "mh": ("get_Mhh", None), "ylh": ("get_ylh", None), "ylH": ("get_ylH", None),
    "ylA": ("get_ylA", None), "ylHp": ("get_ylHp", None),
}


def run(F, R, tier):
    R.explanation = (
        "Structural clause of C03: the value returned by the one-loop functions, folded into an exact rational "
        "function of the model's *reported* masses, mixing-matrix elements and Yukawa couplings (Eigen whole-array "
        "operations pushed down to elements, complex conjugation handled with independent z / zbar atoms, loop "
        "functions kept as opaque atoms identified by the value of their argument), equals the published formula "
        "written down independently in the checker (hep-ph/0609168 (46)-(51) for the MSSM, which is "
        "arXiv:1311.1775 (2.11a,b) in another sign convention; the flavour-summed scalar / pseudoscalar / "
        "charged-Higgs expression of arXiv:1607.06292 minus the SM-Higgs term for the THDM). In addition: the "
        "decomposition calls that produce the mixing matrices pair each mass matrix with the outputs the formula "
        "reads, in the convention the formula assumes; the THDM parameter struct is filled from the same-named "
        "model getters; the Yukawa getters of the three fermion species follow the documented (h, H, A, H+) pattern. "
        "What is NOT decided: that the numerical diagonalisation delivers the exact eigen-system, and the accuracy of the "
        "loop functions (C01) -- an independent numerical evaluation would be a dynamic technique.")
    R.assumptions = ["the decomposition routines satisfy their documented contracts (C12, not decided statically)",
                     "loop functions are the published ones (C01)"]
    R.undecided = ["numerical equality to 1e-8 with an independently diagonalised evaluation (eigen-solver accuracy)"]
    R.guard(_mssm, F, R)
    R.guard(_mssm_chain, F, R)
    R.guard(_fresh_spectrum, F, R)
    R.guard(_no_frozen_statics, F, R)
    R.guard(_thdm, F, R)
    R.guard(_thdm_plumbing, F, R)
    R.guard(_thdm_yukawas, F, R)


def _fold(F, qn, argsym, only, pred=None, loop=None):
    E = Evaluator(F, inline=lambda n, g: not (loop or LOOP).match(n), max_depth=16)
    E.eigen_kinds = True
    fs = [f for f in F.fns(qn) if pred is None or pred(f)]
    if len(fs) != 1:
        raise AnalysisBroken("%s: expected one definition, found %d" % (qn, len(fs)))
    f = fs[0]
    v, fr = E.function_value(f, args=[argsym])
    ft = FieldTypes(F, only=only)
    EW = Elementwise(ft)
    s = EW.scalar(v)
    return f, s, ft


def _is_complex_factory(ft):
    def is_complex(t):
        b = t
        while b[0] == "elem":
            b = b[1]
        if b[0] == "field":
            try:
                return bool(ft.of(b[2])[3])
            except Undecided:
                return False
        return False
    return is_complex


def _resolve_zero_guards(t, alg, notes):
    """`x == 0 ? A : B` (an early return for a vanishing coupling): replaced by B when A equals B at x = 0, i.e. when the
    special case is the general formula evaluated there; otherwise the special case changes the result -- noted"""
    if not isinstance(t, tuple) or not t:
        return t
    h = t[0]
    if h == "ite":
        c, a, b = t[1], _resolve_zero_guards(t[2], alg, notes), _resolve_zero_guards(t[3], alg, notes)
        x = None
        if c[0] == "cmp" and c[1] == "==":
            if c[3][0] == "num" and c[3][1] == 0:
                x = c[2]
            elif c[2][0] == "num" and c[2][1] == 0:
                x = c[3]
        if x is not None:
            try:
                ra = alg.rat(a)
                if x[0] in ("elem", "field", "sym"):
                    zeros = [{x: num(0)}]
                else:
                    # x = (product of atoms)/(...): it vanishes when one factor of the numerator does
                    rx = alg.rat(x)
                    if len(rx.n.t) != 1:
                        raise NotPolynomial("guard on a sum")
                    (mono, _c), = rx.n.t.items()
                    zeros = []
                    for at, e in mono:
                        tt = at[1] if isinstance(at, tuple) and at and at[0] == "cplx" else at
                        if isinstance(tt, tuple) and tt and tt[0] in ("elem", "field", "sym", "call"):
                            zeros.append({tt: num(0)})
                    if not zeros:
                        raise NotPolynomial("guard without atoms")
                for z in zeros:
                    b0 = subst_fold(b, z)
                    rb0 = alg.rat(b0)
                    if not _zero(ra.n * rb0.d - rb0.n * ra.d):
                        notes.append("for %s == 0 the code returns %s, the general branch gives %s there" % (
                            show(x)[:60], show(a)[:60], show(b0)[:100]))
                        break
                return b
            except (NotPolynomial, Undecided):
                pass
        return ("ite", c, a, b)
    if h in ("+", "-", "*", "/"):
        return (h, _resolve_zero_guards(t[1], alg, notes), _resolve_zero_guards(t[2], alg, notes))
    if h == "neg":
        return ("neg", _resolve_zero_guards(t[1], alg, notes))
    if h == "call":
        return ("call", t[1], tuple(_resolve_zero_guards(a, alg, notes) for a in t[2]))
    return t


def _compare(R, rid, F, f, code_term, spec, alg, L, label):
    notes = []
    try:
        code_term = _resolve_zero_guards(code_term, alg, notes)
        code = alg.rat(code_term)
    except (NotPolynomial, Undecided) as ex:
        R.soft_broken("%s: %s: %s" % (rid, label, ex))
        return
    if notes:
        R.fail(rid, label + " (special case)", F.loc(f), "a special case for a vanishing coupling is not the general formula at that "
               "point: " + notes[0], key="%s|%s|zero-guard" % (rid, label))
        return
    res = _residual(code, spec)
    ok = res.is_zero()
    msg = ""
    if not ok:
        if L.unmatched:
            msg = "loop function called with an argument the formula does not contain: %s(%s); " % L.unmatched[0]
        # name the atoms of the residual
        ats = sorted({_atom_name(a) for a in res.atoms()})[:8]
        msg += "code - formula != 0; the difference involves %s" % ", ".join(ats)
    R.check(rid, ok, label, F.loc(f), msg, key="%s|%s" % (rid, label))


def _atom_name(a):
    if isinstance(a, tuple) and a:
        if a[0] == "cplx":
            return show(a[1])[:60]
        if a[0] == "cbar":
            return "conj(%s)" % _atom_name(a[1])
        if a[0] == "L":
            return "%s[%s]" % (a[1], ",".join(str(x) for x in a[2]))
        if a[0] == "const":
            return str(a[1])
        if a[0] == "sqrtQ":
            return "sqrt(%s)" % a[1]
        return show(a)[:60]
    return str(a)


def _mssm(F, R):
    R.rule("M1", "amu1LChi0 / amu1LChipm, as rational functions of (ZN, UM, UP, ZM, MChi, MCha, MSm, MSvmL, y_mu, g1, g2, "
                 "m_mu) with opaque F1N, F2N, F1C, F2C, equal hep-ph/0609168 (46), (47) with the couplings (48)-(51)", 2)
    only = lambda rn: rn.startswith("gm2calc::MSSMNoFV")
    for nm, which in (("amu1LChi0", 0), ("amu1LChipm", 1)):
        f, s, ft = _fold(F, "gm2calc::" + nm, M, only)
        L = LoopAtoms()
        alg = CAlg(_is_complex_factory(ft), atomize=L.atomize)
        spec = spec_mssm(alg, L)[which]
        _compare(R, "M1", F, f, s, spec, alg, L, nm)
    R.rule("M2", "calculate_amu_1loop(MSSM) = amu1LChi0 + amu1LChipm on the same model; the non-resummed variant "
                 "evaluates the same two functions on a copy converted with convert_to_non_tan_beta_resummed", 2)
    E = Evaluator(F, inline=lambda n, g: False, max_depth=3)
    for nm in ("calculate_amu_1loop", "calculate_amu_1loop_non_tan_beta_resummed"):
        fs = [f for f in F.fns("gm2calc::" + nm) if "MSSMNoFV_onshell" in str(f["params"][0].get("t"))]
        if len(fs) != 1:
            R.soft_broken("M2: %s not found" % nm)
            continue
        v, fr = E.function_value(fs[0], args=[M])
        # shape: call(amu1LChi0, X) + call(amu1LChipm, X) with the same X
        ok, why = False, "value is %s" % show(v)[:160]
        if v[0] == "+" and v[1][0] == "call" and v[2][0] == "call":
            names = {str(v[1][1]).split("::")[-1], str(v[2][1]).split("::")[-1]}
            a1, a2 = v[1][2], v[2][2]
            ok = names == {"amu1LChi0", "amu1LChipm"} and a1 == a2 and len(a1) == 1
            if ok and nm == "calculate_amu_1loop":
                ok = a1[0] == M
                why = "the parts are evaluated on %s, not on the argument" % show(a1[0])[:80]
            elif ok:
                eff = [show(c)[:80] for cnd, c, n in E.effects]
                ok = a1[0][0] == "obj" and any("convert_to_non_tan_beta_resummed" in e for e in eff)
                why = "the parts are not evaluated on a converted copy (argument %s, effects %s)" % (show(a1[0])[:60], eff)
        R.check("M2", ok, nm, F.loc(fs[0]), why, key="M2|" + nm)


# decomposition contracts (documented in src/gm2_linalg.hpp): name -> (#outputs, relation)
CONTRACTS = {
    "fs_svd": "m = u^T diag(s) v",
    "fs_diagonalize_symmetric": "m = u^T diag(s) u",
    "fs_diagonalize_hermitian": "m = z^dagger diag(w) z",
}
# what the one-loop formula assumes about each sector: (calculate function, mass matrix function, routine, outputs)
CHAIN = [
    ("calculate_MChi", "get_mass_matrix_Chi", "fs_diagonalize_symmetric", ("MChi", "ZN")),
    ("calculate_MCha", "get_mass_matrix_Cha", "fs_svd", ("MCha", "UM", "UP")),
    ("calculate_MSm", "get_mass_matrix_Sm", "fs_diagonalize_hermitian", ("MSm", "ZM")),
]


def _mssm_chain(F, R):
    R.rule("M3", "the spectrum routines hand each mass matrix to the decomposition whose contract the formula assumes "
                 "(neutralino: M = ZN^T diag ZN; chargino: X = UM^T diag UP; smuon: M^2 = ZM^dagger diag ZM) with the "
                 "outputs in that order, and the getters read by the formula return those fields", 11)
    cls = "gm2calc::MSSMNoFV_onshell_mass_eigenstates"
    E = Evaluator(F, inline=lambda n, g: False, max_depth=3)
    for calc, mmf, routine, outs in CHAIN:
        f = F.fn(cls + "::" + calc)
        E.effects = []
        E.function_value(f)
        sites = [(cnd, c, n) for cnd, c, n in E.effects
                 if re.search(r"(^|::)(fs_)?(svd|diagonalize_\w+|reorder_\w+)$", str(c[1]).split("<")[0]) and "reorder" not in str(c[1])]
        label = "%s: %s(%s(), %s)" % (calc, routine, mmf, ", ".join(outs))
        if len(sites) != 1:
            R.check("M3", False, label, F.loc(f), "expected exactly one decomposition call, found %d" % len(sites), key="M3|" + calc)
            continue
        cnd, c, n = sites[0]
        got_routine = str(c[1]).split("<")[0].split("::")[-1]
        args = list(c[2])
        m = args[0] if args else None
        transposed = False
        while m is not None and m[0] == "call" and str(m[1]).split("::")[-1] in ("transpose", "matrix", "eval") and m[2]:
            if str(m[1]).split("::")[-1] == "transpose":
                transposed = not transposed
            m = m[2][0]
        names = [a[2] if a[0] == "field" and a[1] == ("this",) else show(a)[:40] for a in args[1:]]
        if transposed and got_routine == "fs_svd" and len(names) >= 3:
            names[1], names[2] = names[2], names[1]     # m^T = u^T s v  <=>  m = v^T s u
        mname = str(m[1]).split("::")[-1] if m is not None and m[0] == "call" else show(m)[:40] if m is not None else None
        ok = cnd is None and got_routine == routine and mname == mmf and tuple(names[:len(outs)]) == outs
        R.check("M3", ok, label, F.loc(f, n),
                "found %s%s(%s%s; %s): the formula's couplings assume %s for (%s)" % (
                    "conditional " if cnd is not None else "", got_routine, mname, "^T" if transposed else "",
                    ", ".join(str(x) for x in names), CONTRACTS[routine], ", ".join(outs)), key="M3|" + calc)
    # getters
    E = Evaluator(F, inline=lambda n, g: True, max_depth=4)
    for g, fldname in (("get_ZN", "ZN"), ("get_UM", "UM"), ("get_UP", "UP"), ("get_USm", "ZM"), ("get_MChi", "MChi"),
                       ("get_MCha", "MCha"), ("get_MSm", "MSm"), ("get_MSvmL", "MSvmL")):
        fs = [f for f in F.by_name.get(cls + "::" + g, []) if not f["params"]]
        if not fs:
            fs = [f for f in F.by_name.get("gm2calc::MSSMNoFV_onshell::" + g, []) if not f["params"]]
        if len(fs) != 1:
            R.soft_broken("M3: getter %s not found" % g)
            continue
        v, fr = E.function_value(fs[0])
        R.check("M3", v == ("field", ("this",), fldname), "%s() returns %s" % (g, fldname), F.loc(fs[0]),
                "returns %s" % show(v)[:80], key="M3|" + g)


def _thdm(F, R):
    R.rule("T1", "thdm::amu1L, as a rational function of the Yukawa matrices y_l^{h,H,A,H+}, lepton/neutrino/Higgs masses and "
                 "alpha, equals the flavour-summed scalar + pseudoscalar + charged-Higgs expression minus the SM-Higgs term; "
                 "amu1L_approx equals Eq. (27)-(30) of arXiv:1607.06292", 2)
    only = lambda rn: rn.startswith("gm2calc::thdm::THDM_1L")
    for nm, specf in (("amu1L", spec_thdm), ("amu1L_approx", spec_thdm_approx)):
        f, s, ft = _fold(F, "gm2calc::thdm::" + nm, P, only)
        L = LoopAtoms()
        alg = CAlg(_is_complex_factory(ft), atomize=L.atomize)
        spec = specf(alg, L)
        _compare(R, "T1", F, f, s, spec, alg, L, nm)


def _thdm_plumbing(F, R):
    R.rule("T2", "calculate_amu_1loop(THDM) fills every field of THDM_1L_parameters from the matching model getter "
                 "(non-Goldstone index 1 for A and H+, muon = generation 1) and returns thdm::amu1L of it", len(PLUMBING) + 1)
    fs = [f for f in F.fns("gm2calc::calculate_amu_1loop") if "THDM" in str(f["params"][0].get("t"))]
    if len(fs) != 1:
        raise AnalysisBroken("calculate_amu_1loop(THDM) not found")
    f = fs[0]
    E = Evaluator(F, inline=lambda n, g: n.startswith("gm2calc::SM::get_") or n == "gm2calc::THDM::get_sm", max_depth=6)
    v, fr = E.function_value(f, args=[M])
    ok = v[0] == "call" and str(v[1]).endswith("thdm::amu1L") and len(v[2]) == 1 and v[2][0][0] == "struct"
    R.check("T2", ok, "returns thdm::amu1L(pars)", F.loc(f), "returns %s" % show(v)[:120], key="T2|return")
    if not ok:
        return
    fields = dict(v[2][0][2])
    rec = F.records.get("gm2calc::thdm::THDM_1L_parameters")
    for fl in rec["fields"]:
        nm = fl["name"]
        if nm not in PLUMBING:
            R.check("T2", False, "field %s" % nm, F.loc(f), "new field of THDM_1L_parameters without a documented source", key="T2|" + nm)
            continue
        getter, idx = PLUMBING[nm]
        got = fields.get(nm)
        if getter == "sm.mh":
            ok = got is not None and got[0] == "field" and got[2] == "mh" and "sm" in show(got)
        else:
            want_args = (M,) + ((num(idx),) if idx is not None else ())
            ok = got is not None and got[0] == "call" and str(got[1]).split("::")[-1] == getter and tuple(got[2]) == want_args
        R.check("T2", ok, "pars.%s = model.%s(%s)" % (nm, getter, "" if idx is None else idx), F.loc(f),
                "pars.%s is %s" % (nm, show(got)[:100] if got is not None else "never assigned (default-initialised)"),
                key="T2|" + nm)


def _thdm_yukawas(F, R):
    R.rule("T3", "Yukawa getters, entry by entry: y_f^h = s_ba M_f/v + c_ba rho_f/sqrt2, y_f^H = c_ba M_f/v - s_ba rho_f/sqrt2, "
                 "y_f^A = +-rho_f/sqrt2 (+ up, - down/lepton), y_u^H+ = -rho_u^dagger V, y_d^H+ = V rho_d, y_l^H+ = rho_l, "
                 "with M_f = diag(m_f(Q)) and rho_f(M_f) taken at the mass Q of the getter's own Higgs boson", 12)
    cls = "gm2calc::THDM::"
    TH = ("this",)
    E = Evaluator(F, inline=lambda n, g: False, max_depth=3)
    E.eigen_kinds = True

    def ret_type(name):
        fs = F.fns(name)
        return fs[0].get("ret") if fs else None

    ft = FieldTypes(F, only=lambda rn: rn.startswith("gm2calc::THDM") or rn == "gm2calc::SM")
    EW = Elementwise(ft, ret_type=ret_type)
    SCALE = {"h": ("get_Mhh", 0), "H": ("get_Mhh", 1), "A": ("get_MAh", 1), "Hp": ("get_MHm", 1)}

    def is_scale(t, S):
        g, i = SCALE[S]
        return t[0] == "call" and str(t[1]).split("::")[-1] == g and tuple(t[2]) == (TH, num(i))

    for sp in "udl":
        for S in ("h", "H", "A", "Hp"):
            name = "get_y%s%s" % (sp, S)
            fs = [f for f in F.fns(cls + name) if not f["params"]]
            if len(fs) != 1:
                R.soft_broken("T3: THDM::%s not found" % name)
                continue
            f = fs[0]
            v, fr = E.function_value(f)
            bad = []

            def atomize(t, alg, S=S, sp=sp, bad=bad):
                # canonical atoms for m_f(Q)_i, rho_f(M_f)_{ik}, V_{ik}, s_ba, c_ba, v
                if t[0] == "elem" and t[1][0] == "call":
                    c = t[1]
                    cn = str(c[1]).split("::")[-1]
                    idx = tuple(int(x[1]) for x in t[2:])
                    if cn == "get_m" + sp and len(c[2]) == 2 and c[2][0] == TH:
                        if not is_scale(c[2][1], S):
                            bad.append("running mass m_%s taken at %s" % (sp, show(c[2][1])[:60]))
                        return Rat(Poly.atom(("m", sp) + idx))
                    if cn == "get_rho_" + sp and len(c[2]) == 2 and c[2][0] == TH:
                        # the argument must be diag(m_f(Q))
                        arg = c[2][1]
                        try:
                            for i in range(3):
                                for k in range(3):
                                    e = alg.rat(EW.at(arg, i, k))
                                    want = Rat(Poly.atom(("m", sp, i))) if i == k else K(0)
                                    if not _zero(e.n * want.d - want.n * e.d):
                                        bad.append("rho_%s is evaluated with a mass matrix whose (%d,%d) entry is %s" % (
                                            sp, i, k, show(EW.at(arg, i, k))[:80]))
                                        raise StopIteration
                        except StopIteration:
                            pass
                        return Rat(Poly.atom(("cplx", ("rho", sp) + idx)))
                    if cn == "get_ckm":
                        return Rat(Poly.atom(("cplx", ("V",) + idx)))
                if t[0] == "call" and str(t[1]).split("::")[-1] in ("get_sin_beta_minus_alpha", "get_cos_beta_minus_alpha", "get_v") \
                        and tuple(t[2]) == (TH,):
                    return Rat(Poly.atom((str(t[1]).split("::")[-1],)))
                return None

            alg = CAlg(lambda t: False, atomize=atomize)
            sba, cba, vv = (Rat(Poly.atom((x,))) for x in ("get_sin_beta_minus_alpha", "get_cos_beta_minus_alpha", "get_v"))
            isq = SQ(2) * K(Fraction(1, 2))
            m = lambda i, k: Rat(Poly.atom(("m", sp, i))) if i == k else K(0)
            rho = lambda i, k: Rat(Poly.atom(("cplx", ("rho", sp, i, k))))
            ckm = lambda i, k: Rat(Poly.atom(("cplx", ("V", i, k))))
            ok, why = True, ""
            try:
                for i in range(3):
                    for k in range(3):
                        code = alg.rat(EW.at(v, i, k))
                        if S == "h":
                            want = sba * m(i, k) / vv + cba * rho(i, k) * isq
                        elif S == "H":
                            want = cba * m(i, k) / vv - sba * rho(i, k) * isq
                        elif S == "A":
                            want = rho(i, k) * isq * K(1 if sp == "u" else -1)
                        elif sp == "l":
                            want = rho(i, k)
                        elif sp == "d":
                            want = K(0)
                            for a in range(3):
                                want = want + ckm(i, a) * rho(a, k)
                        else:
                            want = K(0)
                            for a in range(3):
                                want = want - alg.conj(rho(a, i)) * ckm(a, k)
                        if not _zero(code.n * want.d - want.n * code.d):
                            ok, why = False, "entry (%d,%d) is %s" % (i, k, show(EW.at(v, i, k))[:160])
                            break
                    if not ok:
                        break
            except (Undecided, NotPolynomial) as ex:
                R.soft_broken("T3: %s: %s" % (name, ex))
                continue
            if bad:
                ok, why = False, bad[0]
            R.check("T3", ok, name, F.loc(f), why, key="T3|" + name)


# masses / mixings the MSSM one-loop formulas read (sector -> calculate function)
ONE_LOOP_SECTORS = ("Chi", "Cha", "Sm", "SvmL")


def _fresh_spectrum(F, R):
    """the formulas read MChi/ZN, MCha/UM/UP, MSm/ZM, MSvmL: after a public operation has written a Lagrangian parameter that
    enters one of these mass matrices, that sector must be recomputed before the operation returns (typestate 'fresh')"""
    from .rules_c16 import FieldFlow
    R.rule("M4", "every model operation that rewrites parameters of the neutralino / chargino / smuon / sneutrino mass matrices "
                 "(Yukawa conversions, on-shell conversion) recomputes those sectors afterwards: the one-loop formulas never see "
                 "masses or mixing matrices that are stale with respect to the couplings they are combined with", 8)
    FW = FieldFlow(F)
    cls = "gm2calc::MSSMNoFV_onshell_mass_eigenstates::"
    inputs, calc_mg = {}, {}
    for sct in ONE_LOOP_SECTORS:
        g = F.fn(cls + "get_mass_matrix_" + sct)
        inputs[sct] = set(FW.reads(g["body"]))
        calc_mg[sct] = F.fn(cls + "calculate_M" + sct)["mg"]
    ops = ["convert_to_non_tan_beta_resummed", "calculate_masses", "convert_to_onshell"]
    for op in ops:
        for f in F.by_name.get("gm2calc::MSSMNoFV_onshell::" + op, []):
            stmts = f["body"].get("c", [])
            for sct in ONE_LOOP_SECTORS:
                last_w, who = -1, None
                for i, st in enumerate(stmts):
                    w = FW.writes(st) & inputs[sct]
                    if w:
                        last_w, who = i, sorted(x.split("::")[-1] for x in w)
                if last_w < 0:
                    continue
                recalced = any(calc_mg[sct] in FW.stmt_closure(st) or
                               any(n.get("mg") == calc_mg[sct] for n in walk(st) if is_call(n))
                               for st in stmts[last_w:])
                sig = "%s(%s)" % (op, ", ".join(p["name"] or "" for p in f["params"]))
                R.check("M4", recalced, "%s: %s recomputed after the last write of %s" % (sig, sct, ", ".join(who)),
                        F.loc(f, stmts[last_w]),
                        "%s writes %s, which enter(s) the %s mass matrix, and returns without recomputing calculate_M%s: the one-loop "
                        "formulas combine the new couplings with the old masses / mixing matrix of that sector" % (op, ", ".join(who), sct, sct),
                        key="M4|%s|%s|%d" % (op, sct, len(f["params"])))


def _no_frozen_statics(F, R):
    R.rule("T4", "no static-storage variable of the one-loop translation units is initialised from run-time values (a `static const` "
                 "built from the first model's parameters would be re-used for every later model)", 4)
    files = ("src/THDM/gm2_1loop_H.cpp", "src/THDM/gm2_1loop.cpp", "src/MSSMNoFV/gm2_1loop.cpp")
    for key, g in sorted(F.globals.items()):
        if g["file"] not in files:
            continue
        ini = g.get("init")
        bad = None
        if ini is not None:
            for n in walk(ini):
                if (n.get("k") == "DeclRefExpr" and n.get("rk") in ("Param", "Var")) or n.get("k") == "CXXThisExpr":
                    bad = n
                    break
        ok = bad is None and (g["const"] or g["constexpr"] or str(g["t"]).startswith("const "))
        R.check("T4", ok, "%s is a compile-time style constant" % g["name"].split("::")[-1], "%s:%s" % (g["file"], g["line"]),
                "static `%s` depends on run-time data (%s): the value of the first evaluation is frozen into all later ones"
                % (g["name"].split("::")[-1], (bad.get("n") if bad else "writable")), key="T4|" + g["name"])
