"""Abstract domains over the terms of terms.py (no execution, no solver): lower bound, parity,
units.  Each function folds a term bottom-up."""
from fractions import Fraction

NEG_INF = None   # lower bound "unknown / unbounded below"

NONNEG_CALLS = {"abs", "norm", "sqrt", "exp", "hypot", "cosh"}


def lb_add(a, b):
    return None if a is None or b is None else a + b


def lower_bound(t, summaries=None, why=None):
    """greatest provable lower bound of term t (Fraction) or None (= -infinity).
    `summaries` maps opaque call names to known lower bounds; `why` (a list) collects the
    sub-terms that are unbounded below."""
    summaries = summaries or {}

    def lb(t):
        h = t[0]
        if h == "num":
            return t[1]
        if h == "call":
            name = str(t[1]).split("::")[-1]
            if name in NONNEG_CALLS:
                inner = lb(t[2][0]) if t[2] else None
                if name in ("abs", "norm"):
                    # |x| >= max(0, lb(x)) if lb(x) >= 0
                    return max(Fraction(0), inner) if inner is not None and name == "abs" else Fraction(0)
                return Fraction(0)
            if name in ("min",):
                vals = [lb(a) for a in t[2]]
                return None if any(v is None for v in vals) else min(vals)
            if name in ("max",):
                vals = [lb(a) for a in t[2]]
                known = [v for v in vals if v is not None]
                return max(known) if known else None
            if t[1] in summaries:
                return summaries[t[1]]
            if name in summaries:
                return summaries[name]
            if why is not None:
                why.append(t)
            return None
        if h == "+":
            return lb_add(lb(t[1]), lb(t[2]))
        if h == "*":
            if t[1] == t[2]:
                return Fraction(0)
            a, b = lb(t[1]), lb(t[2])
            if a is not None and b is not None and a >= 0 and b >= 0:
                return a * b
            if why is not None and (a is None or b is None):
                pass
            if why is not None:
                why.append(t)
            return None
        if h == "/":
            a, b = lb(t[1]), lb(t[2])
            if a is not None and a >= 0 and b is not None and b > 0:
                return Fraction(0)
            if why is not None:
                why.append(t)
            return None
        if h == "ite":
            a, b = lb(t[2]), lb(t[3])
            return None if a is None or b is None else min(a, b)
        if h == "-":
            # a - b is bounded below only if b is a constant
            a = lb(t[1])
            if t[2][0] == "num" and a is not None:
                return a - t[2][1]
            if why is not None:
                why.append(t)
            return None
        if h == "neg":
            if t[1][0] == "num":
                return -t[1][1]
            if why is not None:
                why.append(t)
            return None
        if why is not None:
            why.append(t)
        return None
    return lb(t)


def addends(t):
    """flatten a sum into its addends"""
    if t[0] == "+":
        return addends(t[1]) + addends(t[2])
    return [t]


# ---- parity under the joint sign flip (mu, M1, M2, M3, A_f -> -) -------------------------------------
EVEN, ODD, MIXED, UNKNOWN = "even", "odd", "mixed", "unknown"

ODD_FIELDS = {"Mu", "MassB", "MassWB", "MassG", "Ae", "Au", "Ad", "TYe", "TYu", "TYd"}
# mixing matrices: their transformation depends on how the eigen-solver absorbs the signs
MIXING_FIELDS = {"ZN", "UM", "UP", "ZM", "ZE", "ZTau", "ZU", "ZD", "ZC", "ZS", "ZB", "ZT", "ZH", "ZA", "ZP"}
EVEN_CALLS = {"abs", "norm", "cosh", "cos", "isfinite", "isnan"}
ODD_CALLS = {"sinh", "sin", "tan", "atan", "asin", "signed_sqr", "signed_abs_sqrt", "cbrt"}


def _mul(a, b):
    if UNKNOWN in (a, b):
        return UNKNOWN
    if MIXED in (a, b):
        return MIXED
    return EVEN if a == b else ODD


def parity(t, why=None, field_parity=None):
    """parity of term t under the joint sign flip; `why` collects the sub-terms responsible for a
    non-even verdict"""
    def note(x, p):
        if why is not None and p in (MIXED, UNKNOWN, ODD):
            why.append((p, x))
        return p

    def par(t):
        h = t[0]
        if h in ("num", "str", "enum", "null", "void"):
            return EVEN
        if h == "sym":
            return EVEN
        if h in ("this", "obj", "struct"):
            return EVEN
        if h == "field":
            name = t[2]
            if field_parity and name in field_parity:
                return field_parity[name]
            if name in ODD_FIELDS:
                return ODD
            if name in MIXING_FIELDS:
                return note(t, UNKNOWN)
            return EVEN
        if h == "elem":
            return par(t[1])
        if h in ("*", "/"):
            return _mul(par(t[1]), par(t[2]))
        if h in ("+", "-"):
            a, b = par(t[1]), par(t[2])
            if t[1] == ("num", 0):
                return b
            if t[2] == ("num", 0):
                return a
            if UNKNOWN in (a, b):
                return UNKNOWN
            if a == b and a in (EVEN, ODD):
                return a
            return note(t, MIXED)
        if h == "neg":
            return par(t[1])
        if h in ("cmp",):
            a, b = par(t[2]), par(t[3])
            if a == EVEN and b == EVEN:
                return EVEN
            if UNKNOWN in (a, b):
                return UNKNOWN
            return note(t, MIXED)        # ordering/equality test on a sign-changing quantity
        if h in ("and", "or"):
            a, b = par(t[1]), par(t[2])
            if a == EVEN and b == EVEN:
                return EVEN
            return UNKNOWN if UNKNOWN in (a, b) else note(t, MIXED)
        if h == "not":
            return par(t[1])
        if h == "ite":
            c, a, b = par(t[1]), par(t[2]), par(t[3])
            if c != EVEN:
                return UNKNOWN if c == UNKNOWN else note(t[1], MIXED)
            if UNKNOWN in (a, b):
                return UNKNOWN
            if a == b:
                return a
            # one branch identically zero has any parity
            if t[2] == ("num", 0):
                return b
            if t[3] == ("num", 0):
                return a
            return note(t, MIXED)
        if h == "call":
            name = str(t[1]).split("::")[-1]
            args = [par(a) for a in t[2]]
            if all(a == EVEN for a in args):
                return EVEN
            if UNKNOWN in args:
                return UNKNOWN
            if name in EVEN_CALLS and len(args) == 1 and args[0] in (EVEN, ODD):
                return EVEN
            if name in ODD_CALLS and len(args) == 1 and args[0] in (EVEN, ODD):
                return args[0]
            if name == "pow" and len(t[2]) == 2 and t[2][1][0] == "num" and t[2][1][1].denominator == 1:
                return EVEN if int(t[2][1][1]) % 2 == 0 else args[0]
            if name == "sqrt" and args[0] == EVEN:
                return EVEN
            return note(t, MIXED)        # e.g. min/max/log/sqrt of a sign-changing quantity
        if h == "mat":
            ps = {par(v) for _, _, v in t[3]}
            if ps == {EVEN}:
                return EVEN
            return UNKNOWN if UNKNOWN in ps else MIXED
        if h == "unknown":
            return note(t, UNKNOWN)
        if h == "throw":
            return EVEN
        return note(t, UNKNOWN)
    return par(t)
