"""Abstract domains over the terms of terms.py (no execution, no solver): lower bound, parity,
units.  Each function folds a term bottom-up."""
from fractions import Fraction

NEG_INF = None   # lower bound "unknown / unbounded below"

NONNEG_CALLS = {"abs", "norm", "sqrt", "exp", "hypot", "cosh"}


def lb_add(a, b):
    return None if a is None or b is None else a + b


def lower_bound(t, summaries=None, why=None):
    """greatest provable lower bound of term t (Fraction) or None (= -infinity).
    `summaries` maps opaque call names to known lower bounds; `why` (a list) collects the
    sub-terms that are unbounded below."""
    summaries = summaries or {}

    def lb(t):
        h = t[0]
        if h == "num":
            return t[1]
        if h == "call":
            name = str(t[1]).split("::")[-1]
            if name in NONNEG_CALLS:
                inner = lb(t[2][0]) if t[2] else None
                if name in ("abs", "norm"):
                    # |x| >= max(0, lb(x)) if lb(x) >= 0
                    return max(Fraction(0), inner) if inner is not None and name == "abs" else Fraction(0)
                return Fraction(0)
            if name in ("min",):
                vals = [lb(a) for a in t[2]]
                return None if any(v is None for v in vals) else min(vals)
            if name in ("max",):
                vals = [lb(a) for a in t[2]]
                known = [v for v in vals if v is not None]
                return max(known) if known else None
            if t[1] in summaries:
                return summaries[t[1]]
            if name in summaries:
                return summaries[name]
            if why is not None:
                why.append(t)
            return None
        if h == "+":
            return lb_add(lb(t[1]), lb(t[2]))
        if h == "*":
            if t[1] == t[2]:
                return Fraction(0)
            a, b = lb(t[1]), lb(t[2])
            if a is not None and b is not None and a >= 0 and b >= 0:
                return a * b
            if why is not None and (a is None or b is None):
                pass
            if why is not None:
                why.append(t)
            return None
        if h == "/":
            a, b = lb(t[1]), lb(t[2])
            if a is not None and a >= 0 and b is not None and b > 0:
                return Fraction(0)
            if why is not None:
                why.append(t)
            return None
        if h == "ite":
            a, b = lb(t[2]), lb(t[3])
            return None if a is None or b is None else min(a, b)
        if h == "-":
            # a - b is bounded below only if b is a constant
            a = lb(t[1])
            if t[2][0] == "num" and a is not None:
                return a - t[2][1]
            if why is not None:
                why.append(t)
            return None
        if h == "neg":
            if t[1][0] == "num":
                return -t[1][1]
            if why is not None:
                why.append(t)
            return None
        if why is not None:
            why.append(t)
        return None
    return lb(t)


def addends(t):
    """flatten a sum into its addends"""
    if t[0] == "+":
        return addends(t[1]) + addends(t[2])
    return [t]


# ---- parity under the joint sign flip (mu, M1, M2, M3, A_f -> -) -------------------------------------
EVEN, ODD, MIXED, UNKNOWN = "even", "odd", "mixed", "unknown"

ODD_FIELDS = {"Mu", "MassB", "MassWB", "MassG", "Ae", "Au", "Ad", "TYe", "TYu", "TYd"}
# mixing matrices: their transformation depends on how the eigen-solver absorbs the signs
MIXING_FIELDS = {"ZN", "UM", "UP", "ZM", "ZE", "ZTau", "ZU", "ZD", "ZC", "ZS", "ZB", "ZT", "ZH", "ZA", "ZP"}
EVEN_CALLS = {"abs", "norm", "cosh", "cos", "isfinite", "isnan"}
ODD_CALLS = {"sinh", "sin", "tan", "atan", "asin", "signed_sqr", "signed_abs_sqrt", "cbrt"}


def _mul(a, b):
    if UNKNOWN in (a, b):
        return UNKNOWN
    if MIXED in (a, b):
        return MIXED
    return EVEN if a == b else ODD


def parity(t, why=None, field_parity=None):
    """parity of term t under the joint sign flip; `why` collects the sub-terms responsible for a
    non-even verdict"""
    def note(x, p):
        if why is not None and p in (MIXED, UNKNOWN, ODD):
            why.append((p, x))
        return p

    def par(t):
        h = t[0]
        if h in ("num", "str", "enum", "null", "void"):
            return EVEN
        if h == "sym":
            return EVEN
        if h in ("this", "obj", "struct"):
            return EVEN
        if h == "field":
            name = t[2]
            if field_parity and name in field_parity:
                return field_parity[name]
            if name in ODD_FIELDS:
                return ODD
            if name in MIXING_FIELDS:
                return note(t, UNKNOWN)
            return EVEN
        if h == "elem":
            return par(t[1])
        if h in ("*", "/"):
            return _mul(par(t[1]), par(t[2]))
        if h in ("+", "-"):
            a, b = par(t[1]), par(t[2])
            if t[1] == ("num", 0):
                return b
            if t[2] == ("num", 0):
                return a
            if UNKNOWN in (a, b):
                return UNKNOWN
            if a == b and a in (EVEN, ODD):
                return a
            return note(t, MIXED)
        if h == "neg":
            return par(t[1])
        if h in ("cmp",):
            a, b = par(t[2]), par(t[3])
            if a == EVEN and b == EVEN:
                return EVEN
            if UNKNOWN in (a, b):
                return UNKNOWN
            return note(t, MIXED)        # ordering/equality test on a sign-changing quantity
        if h in ("and", "or"):
            a, b = par(t[1]), par(t[2])
            if a == EVEN and b == EVEN:
                return EVEN
            return UNKNOWN if UNKNOWN in (a, b) else note(t, MIXED)
        if h == "not":
            return par(t[1])
        if h == "ite":
            c, a, b = par(t[1]), par(t[2]), par(t[3])
            if c != EVEN:
                return UNKNOWN if c == UNKNOWN else note(t[1], MIXED)
            if UNKNOWN in (a, b):
                return UNKNOWN
            if a == b:
                return a
            # one branch identically zero has any parity
            if t[2] == ("num", 0):
                return b
            if t[3] == ("num", 0):
                return a
            return note(t, MIXED)
        if h == "call":
            name = str(t[1]).split("::")[-1]
            args = [par(a) for a in t[2]]
            if all(a == EVEN for a in args):
                return EVEN
            if UNKNOWN in args:
                return UNKNOWN
            if name in EVEN_CALLS and len(args) == 1 and args[0] in (EVEN, ODD):
                return EVEN
            if name in ODD_CALLS and len(args) == 1 and args[0] in (EVEN, ODD):
                return args[0]
            if name == "pow" and len(t[2]) == 2 and t[2][1][0] == "num" and t[2][1][1].denominator == 1:
                return EVEN if int(t[2][1][1]) % 2 == 0 else args[0]
            if name == "sqrt" and args[0] == EVEN:
                return EVEN
            return note(t, MIXED)        # e.g. min/max/log/sqrt of a sign-changing quantity
        if h == "mat":
            ps = {par(v) for _, _, v in t[3]}
            if ps == {EVEN}:
                return EVEN
            return UNKNOWN if UNKNOWN in ps else MIXED
        if h == "unknown":
            return note(t, UNKNOWN)
        if h == "throw":
            return EVEN
        return note(t, UNKNOWN)
    return par(t)


# ---- units (mass dimension) --------------------------------------------------------------------
ANY = "any"          # a literal zero / unconstrained
UERR = "unit-error"


class UnitFail(Exception):
    def __init__(self, msg, term):
        Exception.__init__(self, msg)
        self.term = term


GEV1_FIELDS = {"Mu", "MassB", "MassWB", "MassG", "vd", "vu", "scale", "Ae", "Au", "Ad", "TYe", "TYu", "TYd",
               "mb_DRbar_MZ", "v1", "v2",
               # THDM parameter structs
               "mm", "mw", "mz", "mhSM", "mA", "mHp", "mh", "ml", "mu", "md", "mv"}
GEV2_FIELDS = {"ml2", "me2", "mq2", "mu2", "md2", "BMu", "mHd2", "mHu2", "m122", "m112", "m222", "mw2", "mz2"}
GEV0_FIELDS = {"g1", "g2", "g3", "Ye", "Yu", "Yd", "EL", "EL0", "alpha_em", "tb", "zetal", "cos_beta_minus_alpha",
               "lambda5", "lambda67", "vckm", "yuh", "yuH", "yuA", "yuHp", "ydh", "ydH", "ydA", "ydHp", "ylh", "ylH",
               "ylA", "ylHp", "lambda1", "lambda2", "lambda3", "lambda4", "lambda5", "lambda6", "lambda7",
               "verbose_output", "force_output", "qf", "ql", "t3f", "t3l", "nc", "qd", "qu", "mw2_", "eps",
               "Pi_u", "Pi_d", "Pi_l", "Delta_u", "Delta_d", "Delta_l", "Gamma_u", "Gamma_d", "Gamma_l",
               "zeta_u", "zeta_d", "zeta_l", "yukawa_type", "ckm", "alpha_em_mz", "alpha_em_0", "alpha_s_mz",
               "running_couplings"}
import re as _re
_MASS_FIELD = _re.compile(r"^M(S|F|V|C|G|A|h|H)[A-Za-z0-9]*$")
DIMLESS_FUNCS = {"log", "exp", "dilog", "f_PS", "f_S", "f_sferm", "F1C", "F2C", "F3C", "F4C", "F1N", "F2N", "F3N", "F4N",
                 "G3", "G4", "Fa", "Fb", "sin", "cos", "tan", "atan", "asin", "acos", "log1p", "clausen_2",
                 "f_CSl", "f_CSd", "f_CSu", "FPZ", "FSZ", "FCWl", "FCWu", "FCWd", "F1", "F1t", "F2", "F3",
                 "Ixy", "phi_uv"}
SAME_DIM_FUNCS = {"abs", "real", "imag", "conj", "conjugate", "cwiseAbs", "array", "matrix", "transpose", "adjoint",
                  "col", "row", "diagonal", "asDiagonal", "sum", "maxCoeff", "minCoeff", "eval", "head", "tail",
                  "signed_abs_sqrt_keepdim", "fabs", "neg"}


def field_dim(name):
    if name in GEV2_FIELDS:
        return Fraction(2)
    if name in GEV1_FIELDS or _MASS_FIELD.match(name):
        return Fraction(1)
    if name in GEV0_FIELDS or name in MIXING_FIELDS or _re.match(r"^(Z[A-Z]\w*|U[MP]|V[ude]|U[ude])$", name):
        return Fraction(0)
    return None


def unify(a, b, t):
    if a is None or b is None:
        return None
    if a == ANY:
        return b
    if b == ANY:
        return a
    if a != b:
        raise UnitFail("operands of dimension GeV^%s and GeV^%s are combined" % (a, b), t)
    return a


def units(t, param_dims=None, summaries=None):
    """mass dimension of term t (Fraction), ANY, or None (unknown); raises UnitFail on a definite mismatch"""
    param_dims = param_dims or {}
    summaries = summaries or {}

    def u(t):
        h = t[0]
        if h == "num":
            return ANY if t[1] == 0 else Fraction(0)
        if h == "sym":
            return param_dims.get(t[1])
        if h in ("enum", "str", "null"):
            return Fraction(0)
        if h == "field":
            d = field_dim(t[2])
            if d is None and t[2] in ("physical", "sm", "problems"):
                return None
            return d
        if h == "elem":
            return u(t[1])
        if h in ("+", "-"):
            return unify(u(t[1]), u(t[2]), t)
        if h == "neg":
            return u(t[1])
        if h == "*":
            a, b = u(t[1]), u(t[2])
            if a == ANY or b == ANY:
                return ANY
            return None if a is None or b is None else a + b
        if h == "/":
            a, b = u(t[1]), u(t[2])
            if a == ANY:
                return ANY
            if b == ANY:
                b = Fraction(0)
            return None if a is None or b is None else a - b
        if h == "cmp":
            unify(u(t[2]), u(t[3]), t)
            return Fraction(0)
        if h in ("and", "or", "not"):
            for x in t[1:]:
                u(x)
            return Fraction(0)
        if h == "ite":
            u(t[1])
            return unify(u(t[2]), u(t[3]), t)
        if h == "call":
            name = str(t[1]).split("::")[-1]
            args = t[2]
            if name in DIMLESS_FUNCS:
                for a in args:
                    d = u(a)
                    if d is not None and d != ANY and d != 0:
                        raise UnitFail("argument of %s() has dimension GeV^%s (must be dimensionless)" % (name, d), t)
                return Fraction(0)
            if name == "sqrt":
                d = u(args[0])
                return d if d in (None, ANY) else d / 2
            if name in ("norm", "cwiseAbs2", "square", "squaredNorm"):
                d = u(args[0])
                return d if d in (None, ANY) else d * 2
            if name in ("cwiseInverse", "inverse"):
                d = u(args[0])
                return d if d in (None, ANY) else -d
            if name in ("cwiseSqrt",):
                d = u(args[0])
                return d if d in (None, ANY) else d / 2
            if name in SAME_DIM_FUNCS or name in ("cwiseAbs",):
                return u(args[0])
            if name in ("min", "max", "fmin", "fmax", "cwiseMin", "cwiseMax"):
                d = u(args[0])
                for a in args[1:]:
                    d = unify(d, u(a), t)
                return d
            if name in ("cwiseProduct",):
                a, b = u(args[0]), u(args[1])
                return None if a is None or b is None else (ANY if ANY in (a, b) else a + b)
            if name in ("cwiseQuotient",):
                a, b = u(args[0]), u(args[1])
                return None if a is None or b is None else (ANY if a == ANY else a - (0 if b == ANY else b))
            if name == "pow" and len(args) == 2 and args[1][0] == "num":
                d = u(args[0])
                return d if d in (None, ANY) else d * args[1][1]
            if name in ("Ixyz", "Phi_over_lambda_2"):   # homogeneous of degree -1 in its (squared-mass) arguments
                d = u(args[0])
                for a in args[1:]:
                    d = unify(d, u(a), t)
                return d if d in (None, ANY) else -d
            if name in ("complex",):
                return unify(u(args[0]), u(args[1]), t)
            if name == "Phi" and len(args) == 3:        # Phi(kx,ky,kz) = k Phi(x,y,z)
                d = u(args[0])
                for a in args[1:]:
                    d = unify(d, u(a), t)
                return d
            if name == "lambda_2" and len(args) == 3:   # Kaellen function of three squared masses
                d = u(args[0])
                for a in args[1:]:
                    d = unify(d, u(a), t)
                return d if d in (None, ANY) else d * 2
            if name == "lambda_2" and len(args) == 2:
                for a in args:
                    d = u(a)
                    if d not in (None, ANY) and d != 0:
                        raise UnitFail("argument of lambda_2(u,v) has dimension GeV^%s" % d, t)
                return Fraction(0)
            if name == "shift" and len(args) == 3:
                return unify(u(args[0]), u(args[1]), t)
            if name == "sort":
                return None
            if name in ("isfinite", "isnan", "is_zero", "is_equal", "is_equal_rel", "allFinite", "sign"):
                return Fraction(0)
            if name in ("quiet_NaN", "epsilon", "max_", "signaling_NaN"):
                return ANY
            if name in summaries:
                return summaries[name](args, u, t)
            if str(t[1]) in summaries:
                return summaries[str(t[1])](args, u, t)
            return None
        if h == "mat":
            d = ANY
            for _, _, v in t[3]:
                d = unify(d, u(v), t)
            return d
        if h == "struct":
            return None
        if h in ("unknown", "obj", "this", "throw", "void", "func", "lambda", "default", "member"):
            return None
        return None
    return u(t)
