"""Abstract domains over the terms of terms.py (no execution, no solver): lower bound, parity,
units.  Each function folds a term bottom-up."""
from fractions import Fraction

NEG_INF = None   # lower bound "unknown / unbounded below"

NONNEG_CALLS = {"abs", "norm", "sqrt", "exp", "hypot", "cosh"}


def lb_add(a, b):
    return None if a is None or b is None else a + b


def lower_bound(t, summaries=None, why=None):
    """greatest provable lower bound of term t (Fraction) or None (= -infinity).
    `summaries` maps opaque call names to known lower bounds; `why` (a list) collects the
    sub-terms that are unbounded below."""
    summaries = summaries or {}

    def lb(t):
        h = t[0]
        if h == "num":
            return t[1]
        if h == "call":
            name = str(t[1]).split("::")[-1]
            if name in NONNEG_CALLS:
                inner = lb(t[2][0]) if t[2] else None
                if name in ("abs", "norm"):
                    # |x| >= max(0, lb(x)) if lb(x) >= 0
                    return max(Fraction(0), inner) if inner is not None and name == "abs" else Fraction(0)
                return Fraction(0)
            if name in ("min",):
                vals = [lb(a) for a in t[2]]
                return None if any(v is None for v in vals) else min(vals)
            if name in ("max",):
                vals = [lb(a) for a in t[2]]
                known = [v for v in vals if v is not None]
                return max(known) if known else None
            if t[1] in summaries:
                return summaries[t[1]]
            if name in summaries:
                return summaries[name]
            if why is not None:
                why.append(t)
            return None
        if h == "+":
            return lb_add(lb(t[1]), lb(t[2]))
        if h == "*":
            if t[1] == t[2]:
                return Fraction(0)
            a, b = lb(t[1]), lb(t[2])
            if a is not None and b is not None and a >= 0 and b >= 0:
                return a * b
            if why is not None and (a is None or b is None):
                pass
            if why is not None:
                why.append(t)
            return None
        if h == "/":
            a, b = lb(t[1]), lb(t[2])
            if a is not None and a >= 0 and b is not None and b > 0:
                return Fraction(0)
            if why is not None:
                why.append(t)
            return None
        if h == "ite":
            a, b = lb(t[2]), lb(t[3])
            return None if a is None or b is None else min(a, b)
        if h == "-":
            # a - b is bounded below only if b is a constant
            a = lb(t[1])
            if t[2][0] == "num" and a is not None:
                return a - t[2][1]
            if why is not None:
                why.append(t)
            return None
        if h == "neg":
            if t[1][0] == "num":
                return -t[1][1]
            if why is not None:
                why.append(t)
            return None
        if why is not None:
            why.append(t)
        return None
    return lb(t)


def addends(t):
    """flatten a sum into its addends"""
    if t[0] == "+":
        return addends(t[1]) + addends(t[2])
    return [t]
