"""Element-level reading of Eigen whole-object expressions, and exact complex polynomial normal forms.

The term evaluator keeps Eigen whole-object operations (`cwiseAbs2`, `col`, `conjugate`,
`transpose`, `asDiagonal`, matrix products, ...) as opaque calls.  `Elementwise` pushes an
element access through them, using the declared types of the leaves (data members of the
model classes, `mat` values built entry by entry) to know shapes and whether `*` is the
matrix product (Eigen::Matrix) or the coefficient-wise one (Eigen::Array).

`CAlg` turns scalar complex terms into exact rational functions over atoms in which a complex
atom z and its conjugate zbar are independent (conj(z) = zbar, |z|^2 = z zbar,
Re w = (w + conj w)/2) and the imaginary unit is the algebraic atom sqrtQ(-1).
No floating point, no execution, no solver."""
import re
from fractions import Fraction

from .poly import Poly, Rat, to_rat, NotPolynomial
from .terms import show, num, NUM0, NUM1

IMAG = ("sqrtQ", Fraction(-1))


class Undecided(Exception):
    pass


_EIG = re.compile(r"Eigen::(Matrix|Array)<\s*([^,<>]+(?:<[^<>]*>)?)\s*,\s*(-?\d+)\s*,\s*(-?\d+)")


def parse_eigen_type(t):
    """'const Eigen::Matrix<std::complex<double>, 4, 4> &' -> ('M', 4, 4, True)"""
    m = _EIG.search(str(t or ""))
    if not m:
        return None
    return ("M" if m.group(1) == "Matrix" else "A", int(m.group(3)), int(m.group(4)), "complex" in m.group(2))


class FieldTypes:
    """declared type of every data member of the repository's record types, by member name
    (a name declared with two different Eigen shapes is ambiguous and refused)"""

    def __init__(self, F, only=None):
        self.t = {}
        self.scalar_complex = {}
        amb = set()
        for rn, r in F.records.items():
            if only is not None and not only(rn):
                continue
            for fl in r.get("fields", []):
                ty = str(fl.get("t"))
                pt = parse_eigen_type(ty)
                nm = fl["name"]
                key = pt if pt else ("S", 1, 1, "complex" in ty)
                if nm in self.t and self.t[nm] != key:
                    amb.add(nm)
                self.t[nm] = key
        for nm in amb:
            self.t[nm] = None

    def of(self, name):
        if name not in self.t:
            raise Undecided("no data member named %s in the analysed records" % name)
        if self.t[name] is None:
            raise Undecided("data member name %s is declared with different shapes" % name)
        return self.t[name]


def _idx(t):
    if t[0] == "num" and t[1].denominator == 1:
        return int(t[1])
    raise Undecided("non-constant index %s" % show(t)[:60])


class Elementwise:
    def __init__(self, ftypes, ret_type=None):
        """ret_type(function name) -> declared return type text of a repository function kept opaque"""
        self.ft = ftypes
        self.ret_type = ret_type

    def opaque_type(self, t):
        if self.ret_type is None or t[0] != "call":
            return None
        return parse_eigen_type(self.ret_type(str(t[1])))

    # ---- shapes ----------------------------------------------------------------------------------
    def shape(self, t):
        """(kind, rows, cols): kind 'S' scalar, 'M' matrix algebra, 'A' coefficient-wise algebra, '?' built entry-wise"""
        h = t[0]
        if h in ("num", "sym", "elem"):
            return ("S", 1, 1)
        if h == "field":
            k = self.ft.of(t[2])
            return k[:3]
        if h == "mat":
            return ("?", t[1], t[2])
        if h == "neg":
            return self.shape(t[1])
        if h == "ite":
            a, b = self.shape(t[2]), self.shape(t[3])
            if a[1:] != b[1:]:
                raise Undecided("branches of different shape")
            return a
        if h in ("+", "-"):
            a, b = self.shape(t[1]), self.shape(t[2])
            if a[0] == "S" and b[0] == "S":
                return a
            if a[0] == "S" or b[0] == "S":
                # Array +- scalar is legal in Eigen
                return b if a[0] == "S" else a
            if a[1:] != b[1:]:
                raise Undecided("sum of objects of different shape: %s" % show(t)[:80])
            return a if a[0] != "?" else b
        if h == "*":
            a, b = self.shape(t[1]), self.shape(t[2])
            if a[0] == "S":
                return b
            if b[0] == "S":
                return a
            if self._is_matprod(a, b, t):
                return ("M", a[1], b[2])
            return ("A" if "A" in (a[0], b[0]) else "?", a[1], a[2])
        if h == "/":
            a, b = self.shape(t[1]), self.shape(t[2])
            if b[0] == "S":
                return a
            if a[0] == "S":
                return b
            if a[1:] != b[1:]:
                raise Undecided("quotient of objects of different shape")
            return a
        if h == "call":
            nm = str(t[1]).split("::")[-1]
            if nm in _SHAPE_SAME and t[2]:
                return self.shape(t[2][0])
            if nm in ("transpose", "adjoint"):
                k, r, c = self.shape(t[2][0])
                return (k, c, r)
            if nm == "array":
                k, r, c = self.shape(t[2][0])
                return ("A", r, c)
            if nm == "matrix":
                k, r, c = self.shape(t[2][0])
                return ("M", r, c)
            if nm == "col":
                k, r, c = self.shape(t[2][0])
                return (k, r, 1)
            if nm == "row":
                k, r, c = self.shape(t[2][0])
                return (k, 1, c)
            if nm == "asDiagonal":
                k, r, c = self.shape(t[2][0])
                n = max(r, c)
                return ("M", n, n)
            if nm == "diagonal":
                k, r, c = self.shape(t[2][0])
                return (k, min(r, c), 1)
            if nm in ("cwiseProduct", "cwiseQuotient"):
                return self.shape(t[2][0])
            ot = self.opaque_type(t)
            if ot:
                return ot[:3]
            return ("S", 1, 1)
        return ("S", 1, 1)

    def _is_matprod(self, a, b, t):
        ka, kb = a[0], b[0]
        if "A" in (ka, kb):
            if "M" in (ka, kb):
                raise Undecided("product of an Array and a Matrix: %s" % show(t)[:80])
            return False
        if "M" in (ka, kb):
            if a[2] != b[1]:
                raise Undecided("matrix product with mismatching inner dimensions: %s" % show(t)[:80])
            return True
        # both built entry by entry: decidable only by shape
        inner_ok = a[2] == b[1]
        same = a[1:] == b[1:]
        if inner_ok and not same:
            return True
        if same and not inner_ok:
            return False
        raise Undecided("cannot tell matrix from coefficient-wise product: %s" % show(t)[:80])

    # ---- element -----------------------------------------------------------------------------------
    def at(self, t, i, j):
        """scalar term of element (i, j) of the object t"""
        h = t[0]
        sh = self.shape(t)
        if sh[0] == "S":
            return self.scalar(t)
        if not (0 <= i < sh[1] and 0 <= j < sh[2]):
            raise Undecided("element (%d,%d) outside %dx%d object %s" % (i, j, sh[1], sh[2], show(t)[:60]))
        if h == "field":
            k = self.ft.of(t[2])
            if k[2] == 1 or k[1] == 1:
                return ("elem", t, num(i if k[2] == 1 else j))
            return ("elem", t, num(i), num(j))
        if h == "mat":
            for a, b, v in t[3]:
                if a == i and b == j:
                    return self.scalar(v)
            raise Undecided("entry (%d,%d) of a locally built matrix is never assigned" % (i, j))
        if h == "neg":
            return ("neg", self.at(t[1], i, j))
        if h == "ite":
            return ("ite", self.scalar(t[1]), self.at(t[2], i, j), self.at(t[3], i, j))
        if h in ("+", "-"):
            return (h, self.at(t[1], i, j), self.at(t[2], i, j))
        if h == "*":
            a, b = self.shape(t[1]), self.shape(t[2])
            if a[0] == "S" or b[0] == "S":
                return ("*", self.at(t[1], i, j), self.at(t[2], i, j))
            if self._is_matprod(a, b, t):
                acc = None
                for k in range(a[2]):
                    p = ("*", self.at(t[1], i, k), self.at(t[2], k, j))
                    acc = p if acc is None else ("+", acc, p)
                return acc
            return ("*", self.at(t[1], i, j), self.at(t[2], i, j))
        if h == "/":
            return ("/", self.at(t[1], i, j), self.at(t[2], i, j))
        if h == "call":
            nm = str(t[1]).split("::")[-1]
            a = t[2]
            if nm in ("array", "matrix", "eval", "finished"):
                return self.at(a[0], i, j)
            if nm in ("conjugate",):
                return ("call", "conj", (self.at(a[0], i, j),))
            if nm == "transpose":
                return self.at(a[0], j, i)
            if nm == "adjoint":
                return ("call", "conj", (self.at(a[0], j, i),))
            if nm == "real":
                return ("call", "real", (self.at(a[0], i, j),))
            if nm == "imag":
                return ("call", "imag", (self.at(a[0], i, j),))
            if nm == "cwiseAbs2" or nm == "abs2":
                return ("call", "norm", (self.at(a[0], i, j),))
            if nm in ("cwiseAbs", "abs"):
                return ("call", "abs", (self.at(a[0], i, j),))
            if nm in ("cwiseSqrt", "sqrt"):
                return ("call", "sqrt", (self.at(a[0], i, j),))
            if nm in ("log", "exp") and len(a) == 1:
                return ("call", nm, (self.at(a[0], i, j),))
            if nm in ("cwiseInverse", "inverse") and self.shape(a[0])[0] != "M" or nm == "cwiseInverse":
                return ("/", NUM1, self.at(a[0], i, j))
            if nm == "square":
                x = self.at(a[0], i, j)
                return ("*", x, x)
            if nm == "cube":
                x = self.at(a[0], i, j)
                return ("*", ("*", x, x), x)
            if nm == "col":
                return self.at(a[0], i, _idx(a[1]))
            if nm == "row":
                return self.at(a[0], _idx(a[1]), j)
            if nm == "asDiagonal":
                if i != j:
                    return NUM0
                k, r, c = self.shape(a[0])
                return self.at(a[0], i if c == 1 else 0, 0 if c == 1 else i)
            if nm == "diagonal":
                return self.at(a[0], i, i)
            if nm == "cwiseProduct":
                return ("*", self.at(a[0], i, j), self.at(a[1], i, j))
            if nm == "cwiseQuotient":
                return ("/", self.at(a[0], i, j), self.at(a[1], i, j))
            ot = self.opaque_type(t)
            if ot:
                tt = ("call", t[1], tuple(self.whole(x) for x in a))
                if ot[2] == 1 or ot[1] == 1:
                    return ("elem", tt, num(i if ot[2] == 1 else j))
                return ("elem", tt, num(i), num(j))
        raise Undecided("element of %s is not modelled" % show(t)[:80])

    def whole(self, t):
        """argument of an opaque call: scalars are rewritten, whole objects are kept as they are"""
        try:
            if self.shape(t)[0] == "S":
                return self.scalar(t)
        except Undecided:
            pass
        return t

    def scalar(self, t):
        """rewrite every element access / reduction inside a scalar term down to leaf elements"""
        if not isinstance(t, tuple) or not t:
            return t
        h = t[0]
        if h in ("num", "sym", "this", "enum", "str", "field"):
            return t
        if h == "elem":
            base = t[1]
            idx = [self.scalar(x) for x in t[2:]]
            if base[0] in ("field", "sym") or (base[0] == "call" and self.opaque_type(base)):
                return ("elem", base) + tuple(idx)
            sh = self.shape(base)
            if sh[0] == "S":
                return ("elem", self.scalar(base)) + tuple(idx)
            ii = [_idx(x) for x in idx]
            if len(ii) == 1:
                if sh[2] == 1:
                    return self.at(base, ii[0], 0)
                if sh[1] == 1:
                    return self.at(base, 0, ii[0])
                raise Undecided("single index into a %dx%d object" % (sh[1], sh[2]))
            return self.at(base, ii[0], ii[1])
        if h in ("+", "-", "*", "/"):
            return (h, self.scalar(t[1]), self.scalar(t[2]))
        if h == "neg":
            return ("neg", self.scalar(t[1]))
        if h in ("not",):
            return (h, self.scalar(t[1]))
        if h in ("and", "or"):
            return (h, self.scalar(t[1]), self.scalar(t[2]))
        if h == "cmp":
            return ("cmp", t[1], self.scalar(t[2]), self.scalar(t[3]))
        if h == "ite":
            return ("ite", self.scalar(t[1]), self.scalar(t[2]), self.scalar(t[3]))
        if h == "call":
            nm = str(t[1]).split("::")[-1]
            if nm in ("sum", "trace", "squaredNorm", "prod", "minCoeff", "maxCoeff") and len(t[2]) == 1:
                sh = self.shape(t[2][0])
                if sh[0] != "S":
                    if nm == "trace":
                        els = [self.at(t[2][0], i, i) for i in range(min(sh[1], sh[2]))]
                    else:
                        els = [self.at(t[2][0], i, j) for i in range(sh[1]) for j in range(sh[2])]
                    if nm == "squaredNorm":
                        els = [("call", "norm", (x,)) for x in els]
                    if nm in ("minCoeff", "maxCoeff"):
                        return ("call", "min" if nm == "minCoeff" else "max", tuple(els))
                    acc = els[0]
                    for x in els[1:]:
                        acc = ("*" if nm == "prod" else "+", acc, x)
                    return acc
            return ("call", t[1], tuple(self.scalar(a) for a in t[2]))
        if h == "mat":
            return ("mat", t[1], t[2], tuple((i, k, self.scalar(v)) for i, k, v in t[3]))
        return t


_SHAPE_SAME = {"conjugate", "real", "imag", "cwiseAbs2", "abs2", "cwiseAbs", "abs", "cwiseSqrt", "sqrt", "log", "exp",
               "cwiseInverse", "inverse", "square", "cube", "eval", "finished"}


# ---- complex polynomial algebra ---------------------------------------------------------------------
class CAlg:
    """scalar complex term -> Rat; `is_complex(atom_term)` tells which leaves are complex"""

    def __init__(self, is_complex, atomize=None):
        self.is_complex = is_complex
        self.user_atomize = atomize

    @staticmethod
    def conj_poly(p):
        mapping = {}
        for a in p.atoms():
            if a == IMAG:
                mapping[a] = -Poly.atom(IMAG)
            elif isinstance(a, tuple) and a and a[0] == "cbar":
                mapping[a] = Poly.atom(a[1])
            elif isinstance(a, tuple) and a and a[0] == "cplx":
                mapping[a] = Poly.atom(("cbar", a))
        return p.subs(mapping) if mapping else p

    def conj(self, r):
        return Rat(self.conj_poly(r.n), self.conj_poly(r.d))

    def atom(self, t):
        if self.is_complex(t):
            return Rat(Poly.atom(("cplx", t)))
        return Rat(Poly.atom(t))

    def rat(self, t):
        h = t[0]
        if self.user_atomize is not None:
            r = self.user_atomize(t, self)
            if r is not None:
                return r
        if h == "num":
            return to_rat(t)
        if h in ("+", "-", "*", "/"):
            a, b = self.rat(t[1]), self.rat(t[2])
            return a + b if h == "+" else a - b if h == "-" else a * b if h == "*" else a / b
        if h == "neg":
            return -self.rat(t[1])
        if h == "call":
            nm = str(t[1])
            a = t[2]
            if nm == "conj" and len(a) == 1:
                return self.conj(self.rat(a[0]))
            if nm == "norm" and len(a) == 1:
                x = self.rat(a[0])
                return x * self.conj(x)
            if nm == "real" and len(a) == 1:
                x = self.rat(a[0])
                return (x + self.conj(x)) * Rat(Poly.const(Fraction(1, 2)))
            if nm == "imag" and len(a) == 1:
                x = self.rat(a[0])
                return (x - self.conj(x)) * Rat(Poly.const(Fraction(1, 2))) / Rat(Poly.atom(IMAG))
            if nm == "complex" and len(a) == 2:
                return self.rat(a[0]) + self.rat(a[1]) * Rat(Poly.atom(IMAG))
            if nm == "sqrt" and len(a) == 1 and a[0][0] == "num":
                return to_rat(t)
            if nm == "sqrt" and len(a) == 1:
                return Rat(Poly.atom(("call", "sqrt", (a[0],))))
            return Rat(Poly.atom(t))
        if h in ("sym", "field", "elem", "this", "enum"):
            return self.atom(t)
        raise NotPolynomial("term %s is not polynomial: %s" % (h, show(t)[:120]))
